# Self-test mutants: small changes to /repo that compile and (verified by the runner) keep the
# repository's own tests green. (id, expected-to-be-caught-by, file, old, new, description)
# kind "S" = property-preserving edit: NO check may raise an alarm.
P = "src/conversion/string/impl_enum/parser.rs"
F = "src/conversion/string/impl_enum/formatter.rs"
FI = "src/conversion/string/impl_enum/format_instances.rs"
LP = "src/conversion/string/impl_lexical/parser.rs"
LF = "src/conversion/string/impl_lexical/formatter.rs"
LFI = "src/conversion/string/impl_lexical/format_instances.rs"
FOLD = "src/conversion/inter_type/lexical_fold/impl_enum.rs"
T = "src/enum_narsese/term/impls.rs"
TY = "src/conversion/string/typst_formatter/definition.rs"
TYF = "src/conversion/string/typst_formatter/formatter_enum.rs"
TR = "src/enum_narsese/sentence/truth.rs"
BU = "src/enum_narsese/task/budget.rs"
TASK = "src/enum_narsese/task/mod.rs"
LTASK = "src/lexical/task.rs"
NV = "src/api/conversion/impl_narsese_value.rs"

MUTANTS = [
 ("M01", ["C11"], FI, 'stamp_past: r"\\",\n        stamp_present: "|",\n        stamp_future: "/",', 'stamp_past: "/",\n        stamp_present: "|",\n        stamp_future: r"\\",', "ASCII enum table: past/future tense markers swapped (round-trips still work)"),
 ("M02", ["C01", "C14"], T, "        match self.now_index == self.placeholder_index {", "        match self.now_index == self.placeholder_index && self.now_index < 3 {", "ImageIterator never yields a placeholder at index >= 3"),
 ("M03", ["C01", "C03"], FI, 'connecter_disjunction: "或",', 'connecter_disjunction: "与",', "Han enum table: disjunction connecter duplicates conjunction"),
 ("M04", ["C02", "C15"], LF, "        join_to(out, budget.iter(), &self.task.budget_separator);", "        join_to(out, budget.iter(), &self.sentence.truth_separator);", "lexical formatter joins budget entries with the truth separator (differs in LaTeX only)"),
 ("M05", ["C03", "C10"], FOLD, "folder.statement.copula_instance => EnumTerm::new_instance(subject, predicate),", "folder.statement.copula_instance => EnumTerm::new_property(subject, predicate),", "fold: instance copula folded as property"),
 ("M06", ["C04"], P, "        env[char_range_left.min(char_range_right)..char_range_right].into()", "        env[char_range_left..char_range_right].into()", "revert of the D4 fix"),
 ("M07", ["C04"], P, "        if self.head == start {\n            return self.err(\"空的无符号整数值\");\n        }", "        if self.head == start {\n            return self.err(&format!(\"空的无符号整数值，遇到{:?}\", self.head_char()));\n        }", "parse_isize error message reads the current char without a bounds check (panics at end of input)"),
 ("M08", ["C05", "C08"], LP, "    env.len() >= needle.chars().count() && env.starts_with_str(needle)", "    env.starts_with_str(needle)", "revert of the D9 fix (lexical side)"),
 ("M09", ["C06"], T, "                (t1 == u1 && t2 == u2) || (t1 == u2 && t2 == u1)", "                t1 == u1 && t2 == u2", "symmetric statements compared in order only"),
 ("M10", ["C06"], T, "            | (ImageIntension(i1, v1), ImageIntension(i2, v2)) => i1 == i2 && v1 == v2,", "            | (ImageIntension(i1, v1), ImageIntension(i2, v2)) => (i1 == i2 || v1.len() > 3) && v1 == v2,", "image equality ignores the placeholder index for images with more than 3 components"),
 ("M11", ["C07"], T, "            Similarity(t1, t2) | Equivalence(t1, t2) | EquivalenceConcurrent(t1, t2) => {\n                hash_terms_unordered([t1.as_ref(), t2.as_ref()].into_iter(), state)\n            }", "            Similarity(t1, t2) | Equivalence(t1, t2) | EquivalenceConcurrent(t1, t2) => {\n                t1.hash(state);\n                t2.hash(state);\n            }", "symmetric statements hashed in stored order (half of D1)"),
 ("M12", ["C08"], P, "        self.mid_result = MidParseResult::new();\n    }\n\n    /// 重置状态", "        self.mid_result.term = None;\n        self.mid_result.budget = None;\n    }\n\n    /// 重置状态", "reset_to clears only term and budget: stale punctuation/stamp/truth survive"),
 ("M13", ["C09"], P, "        self.head_skip_after_spaces(self.format.sentence.stamp_brackets.1);", "        self.head_skip(self.format.sentence.stamp_brackets.1);", "no space skipping before the closing stamp bracket"),
 ("M14", ["C10"], T, "        Term::new_inheritance(Term::new_set_extension(vec![subject]), predicate)\n    }", "        Term::new_inheritance(subject, Term::new_set_extension(vec![predicate]))\n    }", "new_instance wraps the predicate (both pipelines share the helper)"),
 ("M15", ["C10"], T, "        Term::new_equivalence_predictive(consequent, antecedent)", "        Term::new_equivalence_predictive(antecedent, consequent)", "retrospective equivalence no longer swaps its operands"),
 ("M16", ["C11"], None, None, None, "quest punctuation '@' -> '¿' in BOTH ASCII tables (formatter and parsers drift together)"),
 ("M17", ["C12"], FOLD, "    if name.is_empty() && prefix != folder.atom.prefix_placeholder {", "    if name.is_empty() && prefix.is_empty() {", "fold rejects empty names only for words: `$` folds to VariableIndependent(\"\") again"),
 ("M18", ["C13"], BU, "            Some(v) => *v.try_validate_01()?,\n            None => return Ok(Self::new_double(p, d)),\n        };\n        // 三个都存在⇒三\n        Ok(Self::new_triple(p, d, q))", "            Some(v) => v,\n            None => return Ok(Self::new_double(p, d)),\n        };\n        // 三个都存在⇒三\n        Ok(Budget::Triple(p, d, q))", "Budget::try_from_floats does not validate the third component"),
 ("M19", ["C14"], T, "                vec.insert(placeholder_index, Placeholder);", "                vec.insert(placeholder_index.min(vec.len().saturating_sub(1)), Placeholder);", "extract_terms puts the placeholder one position early when it is last"),
 ("M20", ["C14"], T, "            Similarity(..) | Equivalence(..) | EquivalenceConcurrent(..) => BinarySet,", "            Similarity(..) | Equivalence(..) => BinarySet,\n            EquivalenceConcurrent(..) => BinaryVec,", "concurrent equivalence reported with ordered-binary capacity"),
 ("M21", ["C15"], TASK, "        match self.1.is_empty() {\n            // 空预算⇒可无损转换\n            true => Ok(self.0),\n            // 其它⇒无法转换\n            false => Err(self),\n        }", "        match self.1 {\n            Budget::Empty | Budget::Single(_) => Ok(self.0),\n            _ => Err(self),\n        }", "a task with a single-number budget casts to a sentence (budget dropped)"),
 ("M22", ["C15", "C02"], LF, "    fn _format_budget(&self, out: &mut String, budget: &Budget) {\n", "    fn _format_budget(&self, out: &mut String, budget: &Budget) {\n        if budget.is_empty() {\n            return;\n        }\n", "lexical formatter omits the brackets of an empty budget"),
 ("M23", ["C16"], TY, 'pub const CONNECTER_DISJUNCTION: &str = " or ";', 'pub const CONNECTER_DISJUNCTION: &str = " and ";', "Typst: disjunction rendered like conjunction"),
 ("M24", ["C16"], TYF, "            (2, _) => template_components(out, strings.into_iter(), connecter, \"\"),", "            (2, _) | (1, _) => template_components(out, strings.into_iter(), connecter, \"\"),", "Typst: unary compounds drop their connecter"),
 ("M25", ["C17"], T, "            Interval(interval) => new_name.parse().transform(", "            Interval(interval) => new_name.trim().parse().transform(", "interval rename trims whitespace first (accepts ' 7')"),
 ("M26", ["C17"], T, "                Product(vec) | ImageExtension(_,vec) | ImageIntension(_,vec) | ConjunctionSequential(vec) => {\n                    // 持续追加\n                    vec.extend(terms);", "                Product(vec) | ImageExtension(_,vec) | ImageIntension(_,vec) | ConjunctionSequential(vec) => {\n                    // 持续追加\n                    vec.extend(terms.into_iter().filter(|t| *t != Placeholder));", "push_components silently drops placeholders appended to ordered compounds"),
 ("M27", ["C03", "C10"], FOLD, "folder.compound.connecter_image_intension => EnumTerm::to_image_intension_with_placeholder(terms)", "folder.compound.connecter_image_intension => EnumTerm::to_image_extension_with_placeholder(terms)", "fold: intensional image folded as extensional"),
 ("M28", ["C01", "C09"], P, "                '.' | '0'..='9' => {\n                    value_buffer.push(self.head_char());", "                '.' | '0'..='9' if value_buffer.len() < 20 => {\n                    value_buffer.push(self.head_char());", "number buffer limited to 20 characters (long decimals such as 5e-324 fail)"),
 ("M29", ["C12", "C04"], P, "        if !f.is_in_01() || !c.is_in_01() {\n            return self.err(\"「0-1」区间外的值（建议：`0<x<1`）\");\n        }\n        // 构造真值", "        if !f.is_in_01() {\n            return self.err(\"「0-1」区间外的值（建议：`0<x<1`）\");\n        }\n        // 构造真值", "consume_truth does not range-check the confidence"),
 ("M30", ["C05"], FOLD, "            let left = terms.next().ok_or(FoldError!(\"在外延差中找不到左词项\"))?;\n            let right = terms.next().ok_or(FoldError!(\"在外延差中找不到右词项\"))?;", "            let left = terms.next().ok_or(FoldError!(\"在外延差中找不到左词项\"))?;\n            let right = terms.next().unwrap();", "fold of an extensional difference with one component unwraps None"),
 # ---- property-preserving edits: nothing may alarm
 ("S01", [], T, "        acc = acc.wrapping_add(hasher.finish());", "        acc ^= hasher.finish().rotate_left(7);", "another order-independent hash combination"),
 ("S02", [], TY, 'pub const CONNECTER_PRODUCT: &str = " times ";', 'pub const CONNECTER_PRODUCT: &str = " times.circle ";', "Typst markup re-skinned, still distinct"),
 ("S03", [], FI, 'format_items: " ", // 格式化时，条目间需要空格（英文如此）', 'format_items: "  ", // 格式化时，条目间需要空格（英文如此）', "ASCII formatter puts two spaces between items"),
 ("S04", [], P, '            return self.err("预算值缺少右括弧");', '            return self.err("budget is not closed");', "a different error message"),
 ("S06", [], F, "            out.push_str(&f.to_string());\n        }\n        out.push_str(bracket_right);", "            out.push_str(&if f.fract() == 0.0 { format!(\"{f:.1}\") } else { f.to_string() });\n        }\n        out.push_str(bracket_right);", "enum formatter spells numbers with a decimal point (1 -> 1.0): values unchanged (the repository's formatter test pins the old spelling, so this edit is for the checks only)"),
 ("S07", [], FI, 'format_terms: "",  // 格式化时，词项间无需分隔（避免太过松散）', 'format_terms: " ",  // 格式化时，词项间无需分隔（避免太过松散）', "Han formatter puts a space between terms (parsers skip spaces)"),
 ("S08", [], T, "    fn hash<H: std::hash::Hasher>(&self, state: &mut H) {\n        match self {\n            // 原子词项 //", "    fn hash<H: std::hash::Hasher>(&self, state: &mut H) {\n        std::mem::discriminant(self).hash(state);\n        match self {\n            // 原子词项 //", "Hash also feeds the constructor discriminant"),
 ("S09", [], F, "        template_compound_set(\n            out,\n            bracket_left,\n            components.iter().map(|term| self.format_term(term)),", "        let mut sorted: Vec<String> = components.iter().map(|term| self.format_term(term)).collect();\n        sorted.sort();\n        template_compound_set(\n            out,\n            bracket_left,\n            sorted.into_iter(),", "enum formatter prints the elements of {..} / [..] sets in sorted order (canonical output)"),
 ("S05", [], T, "            // 一元\n            Negation(..) => Unary,", "            Negation(..) => Unary, // 一元", "comment moved (no semantic change)"),
 # property-preserving edits aimed at the round-5 generators (slots, contexts, environment replica)
 ("S10", [], LP, "    // 获取字符迭代器\n    let chars = input.chars();", "    // per-thread scratch statistics, the ordinary way (`LocalKey::with` on a value with a destructor)\n    thread_local! { static SCRATCH: std::cell::RefCell<Vec<char>> = std::cell::RefCell::new(Vec::new()); }\n    SCRATCH.with(|s| { let mut s = s.borrow_mut(); s.clear(); s.extend(input.chars().take(16)); });\n    let chars = input.chars();", "lexical parser keeps a per-thread scratch buffer (thread_local + with): behaviour unchanged"),
 ("S11", [], P, "    pub fn parse_error(&self, message: &str) -> ParseError {\n        ParseError::new(message, self.env.clone(), self.head)", "    pub fn parse_error(&self, message: &str) -> ParseError {\n        if std::env::var_os(\"NARSESE_PARSE_TRACE\").is_some() {\n            eprintln!(\"parse error at {} of {}: {message}\", self.head, self.env.len());\n        }\n        ParseError::new(message, self.env.clone(), self.head)", "enum parser prints a trace line per error when an environment variable is set (safe)"),
 ("S12", [], P, "    fn starts_with(&self, to_compare: &str) -> bool {", "    fn starts_with(&self, to_compare: &str) -> bool {\n        // per-format call statistics keyed by the format's CONTENT (its judgement punctuation), not its address\n        thread_local! { static CALLS: std::cell::RefCell<std::collections::HashMap<String, u64>> = std::cell::RefCell::new(std::collections::HashMap::new()); }\n        let _ = CALLS.try_with(|c| *c.borrow_mut().entry(self.format.sentence.punctuation_judgement.to_string()).or_insert(0) += 1);", "enum parser counts calls per format content in a thread-local map (behaviour unchanged)"),
]

# mutants that need more than one edit
MULTI = {
 "M16": [
   (FI, 'punctuation_quest: "@",', 'punctuation_quest: "¿",'),
   (LFI, '                "@" // 请求', '                "¿" // 请求'),
 ],
}
