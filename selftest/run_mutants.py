#!/usr/bin/env python3
"""Sensitivity / specificity self-test of the checks (not registered in MANIFEST.json).

Applies each mutant (selftest/mutants.py) or a patch file to a SCRATCH worktree of /repo
(never to /repo itself), points a scratch copy of the harness at it, verifies that the
repository's own tests still pass, runs the quick tier of the targeted checks and
expects exit 1 (for "S" mutants: runs every check and expects exit 0).

usage: run_mutants.py [--only M01,M02] [--skip-tests] [--patch FILE --ids C01,C02 --name X] [--keep]
"""
import json, os, shutil, subprocess, sys, time
sys.path.insert(0, os.path.dirname(__file__))
import mutants as M

SCR = os.environ.get("MUT_SCRATCH", "/tmp/mut")
REPO = f"{SCR}/repo"
HARN = f"{SCR}/harness"
ROOT = f"{SCR}/root"
ALL = [f"C{i:02d}" for i in range(1, 18)]
ENV = dict(os.environ, CARGO_NET_OFFLINE="true", VERIF_ROOT=ROOT)

def sh(cmd, cwd=None, timeout=3600):
    # own process group, so that a timeout kills the whole pipeline (not only the shell)
    p = subprocess.Popen(cmd, shell=True, cwd=cwd, env=ENV, stdout=subprocess.PIPE, stderr=subprocess.STDOUT, text=True, start_new_session=True)
    try:
        out, _ = p.communicate(timeout=timeout)
        return p.returncode, out
    except subprocess.TimeoutExpired:
        import signal
        try:
            os.killpg(p.pid, signal.SIGKILL)
        except ProcessLookupError:
            pass
        p.communicate()
        raise

def setup():
    os.makedirs(SCR, exist_ok=True)
    if not os.path.isdir(REPO):
        rc, out = sh(f"git -C /repo worktree add --detach {REPO} HEAD")
        assert rc == 0, out
    else:
        sh("git checkout -- . && git clean -fdq -e target", cwd=REPO)
        sh("git checkout --detach $(git -C /repo rev-parse HEAD)", cwd=REPO)
    os.makedirs(HARN, exist_ok=True)
    sh(f"rsync -a --delete --exclude target --exclude fuzz {os.environ.get('HARNESS_SRC', '/verif/harness')}/ {HARN}/")
    toml = open(f"{HARN}/Cargo.toml").read().replace('path = "/repo"', f'path = "{REPO}"')
    open(f"{HARN}/Cargo.toml", "w").write(toml)
    shutil.rmtree(ROOT, ignore_errors=True)
    os.makedirs(f"{ROOT}/replays", exist_ok=True)
    shutil.copy("/verif/KNOWN_FINDINGS.txt", ROOT)
    shutil.copytree("/verif/replays/regress", f"{ROOT}/replays/regress")

def build():
    rc, out = sh("cargo build --release --offline 2>&1 | tail -15", cwd=HARN)
    if rc != 0 or "error" in out:
        return rc, out
    return sh("cargo build --profile dbg --offline 2>&1 | tail -15", cwd=HARN)

def run_one(binary, pid, tier, timeout, env=""):
    t0 = time.time()
    try:
        rc, out = sh(f"{env} {binary} {pid} {tier}", timeout=timeout)
    except subprocess.TimeoutExpired:
        return 124, "timeout", time.time() - t0
    if rc < 0 or rc > 128:
        # the harness process died by a signal: do what ./check does (crash triage)
        signo = -rc if rc < 0 else rc - 128
        rc2, out2 = sh(f"{env} /verif/tools/crash_triage.sh {binary} {pid} {ROOT}/replays/found {signo} {tier}", timeout=2400)
        lines = [l.strip() for l in out2.splitlines() if l.strip()]
        first = [l for l in lines if not l.startswith("NOTE") and "Segmentation fault" not in l and "Aborted" not in l] or lines
        return rc2, ("crash-triage: " + " | ".join(first[:2]))[:300], time.time() - t0
    sig = [l for l in out.splitlines() if "signature=" in l]
    return rc, (sig[0].strip() if sig else ""), time.time() - t0

def run_check(pid, tier="quick", timeout=900):
    """what ./check does: the optimised build, then (if it is silent) the replica build"""
    rc, sig, dt = run_one(f"{HARN}/target/release/nvh", pid, tier, timeout)
    if rc != 0:
        return rc, sig, dt
    rc2, sig2, dt2 = run_one(f"{HARN}/target/dbg/nvh", pid, tier, timeout, env="VERIF_PROFILE=dbg VERIF_SCALE=0.5 VERIF_SKIP_STREAMS=long-texts")
    if rc2 != 0:
        return rc2, (("replica-build: " + sig2) if rc2 == 1 else sig2), dt + dt2
    # environment replica (only if the crate reads environment variables)
    import re, glob
    names = set()
    for f in glob.glob(f"{REPO}/src/**/*.rs", recursive=True):
        names |= set(re.findall(r'var(?:_os)?\(\s*"([A-Za-z_][A-Za-z0-9_]*)"', open(f, encoding="utf-8").read()))
    if not names:
        return rc2, sig2, dt + dt2
    envs = " ".join(f"{n}=1" for n in sorted(names))
    rc3, sig3, dt3 = run_one(f"{HARN}/target/release/nvh", pid, tier, timeout, env=f"{envs} VERIF_PROFILE=env VERIF_SCALE=0.5 VERIF_SKIP_STREAMS=long-texts")
    return rc3, (("environment-replica: " + sig3) if rc3 == 1 else sig3), dt + dt2 + dt3

def revert():
    sh("git checkout -- . && git clean -fdq -e target", cwd=REPO)

def apply_edits(edits):
    for f, old, new in edits:
        path = f"{REPO}/{f}"
        s = open(path, encoding="utf-8").read()
        if s.count(old) != 1:
            return f"pattern occurs {s.count(old)} times in {f}"
        open(path, "w", encoding="utf-8").write(s.replace(old, new))
    return None

def main():
    args = sys.argv[1:]
    only = None
    skip_tests = "--skip-tests" in args
    if "--only" in args:
        only = args[args.index("--only") + 1].split(",")
    setup()
    rc, out = build()
    if rc != 0 or "error" in out:
        print("baseline harness build failed\n", out); sys.exit(2)
    jobs = []
    if "--patch" in args:
        pf = os.path.abspath(args[args.index("--patch") + 1])
        ids = args[args.index("--ids") + 1].split(",") if "--ids" in args else ALL
        name = args[args.index("--name") + 1] if "--name" in args else os.path.basename(pf)
        jobs.append((name, ids, ("patch", pf), "patch file"))
    else:
        for (mid, targets, f, old, new, desc) in M.MUTANTS:
            if only and mid not in only: continue
            edits = M.MULTI[mid] if f is None else [(f, old, new)]
            jobs.append((mid, targets, ("edits", edits), desc))
    results = []
    for (mid, targets, how, desc) in jobs:
        revert()
        if how[0] == "patch":
            rc, out = sh(f"git apply {how[1]}", cwd=REPO)
            err = out if rc != 0 else None
        else:
            err = apply_edits(how[1])
        rec = {"id": mid, "description": desc, "expected": targets}
        if err:
            rec["status"] = "not-applicable: " + err.strip()
            print(mid, rec["status"]); results.append(rec); continue
        rc, out = build()
        if rc != 0 or "error[" in out or "error:" in out:
            rec["status"] = "does-not-compile"; rec["log"] = out[-600:]
            print(mid, "does not compile"); results.append(rec); continue
        if not skip_tests:
            rc, out = sh("cargo test --workspace --no-fail-fast --offline 2>&1 | grep -E '^test result|FAILED|failed' | head -5", cwd=REPO)
            rec["repo_tests"] = "green" if ("157 passed; 0 failed" in out and "FAILED" not in out) else "RED: " + out.strip()[:300]
        checks = ALL if (not targets or mid.startswith("S") or "--all" in args) else targets
        rec["checks"] = {}
        for pid in checks:
            rc, sig, secs = run_check(pid)
            rec["checks"][pid] = {"exit": rc, "signature": sig, "seconds": round(secs, 1)}
        caught = [p for p, r in rec["checks"].items() if r["exit"] == 1]
        if mid.startswith("S"):
            rec["status"] = "silent (good)" if not caught and all(r["exit"] == 0 for r in rec["checks"].values()) else "FALSE ALARM by " + ",".join(caught)
        else:
            missed = [p for p in targets if rec["checks"].get(p, {}).get("exit") != 1]
            rec["status"] = ("caught by " + ",".join(caught)) if caught else "MISSED"
            if caught and missed: rec["status"] += " (expected but silent: " + ",".join(missed) + ")"
        print(mid, rec.get("repo_tests", "tests-skipped"), "|", rec["status"], "|", {p: r["signature"] for p, r in rec["checks"].items() if r["exit"] == 1})
        sys.stdout.flush()
        results.append(rec)
    revert()
    out_file = os.environ.get("MUT_OUT", f"{SCR}/results.json")
    json.dump(results, open(out_file, "w"), indent=1, ensure_ascii=False)
    print("results written to", out_file)
    if "--keep" not in args:
        sh(f"git -C /repo worktree remove --force {REPO}")
        shutil.rmtree(SCR, ignore_errors=True) if out_file.startswith("/verif") else None

if __name__ == "__main__":
    main()
