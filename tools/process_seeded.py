#!/usr/bin/env python3
"""Confirm a sub-agent's seeded change and run every check against it (in a scratch worktree).
usage: process_seeded.py <PROP> <A|B> [--ids C01,C02] ; reads /tmp/wt/<PROP>/seeded/{X.patch,demo_x.rs,NOTES.md}
writes /verif/seeded/<PROP>-<X>/{patch.diff,demo.rs,meta.json}"""
import json, os, shutil, sys, re
os.environ.setdefault("MUT_SCRATCH", "/tmp/mut2")
sys.path.insert(0, "/verif/selftest")
import run_mutants as R

def main():
    prop, x = sys.argv[1], sys.argv[2]
    ids = R.ALL
    if "--ids" in sys.argv:
        ids = sys.argv[sys.argv.index("--ids") + 1].split(",")
    base = "/tmp/wt"
    label = x
    if "--round2" in sys.argv:
        base = "/tmp/wt2"
        label = {"A": "C", "B": "D"}[x]
    if "--round3" in sys.argv:
        base = "/tmp/wt3"
        label = {"A": "E", "B": "F"}[x]
    if "--round4" in sys.argv:
        base = "/tmp/wt4"
        label = {"A": "G"}[x]
    if "--round5" in sys.argv:
        base = "/tmp/wt5"
        label = {"A": "H"}[x]
    if "--round6" in sys.argv:
        base = "/tmp/wt6"
        label = {"A": "I"}[x]
    src = f"{base}/{prop}/seeded"
    patch = f"{src}/{x}.patch"
    demo = f"{src}/demo_{x.lower()}.rs"
    assert os.path.exists(patch) and os.path.exists(demo), "deliverables missing"
    R.setup()
    rc, out = R.build()
    assert rc == 0, out
    meta = {"seeded_id": f"{prop}-{label}", "breaks_property": prop, "source": "independent sub-agent given only the property text and a scratch worktree"}
    os.makedirs(f"{R.REPO}/tests", exist_ok=True)
    shutil.copy(demo, f"{R.REPO}/tests/seeded_demo.rs")
    rc, out = R.sh("cargo test --offline --test seeded_demo 2>&1 | grep -E '^test result|error' | head -3", cwd=R.REPO)
    meta["demo_without_change"] = out.strip()
    demo_clean_ok = "0 failed" in out and "test result: ok" in out
    rc, out = R.sh(f"git apply {patch}", cwd=R.REPO)
    if rc != 0:
        print("patch does not apply:", out); sys.exit(2)
    rc, out = R.sh("cargo test --workspace --no-fail-fast --offline 2>&1 | grep -E '^test result|FAILED|^error' | head -8", cwd=R.REPO)
    meta["tests_with_change"] = out.strip()
    lines = out.strip().splitlines()
    suite_green = any("157 passed; 0 failed" in l for l in lines)
    demo_fails = any(("FAILED" in l or "failed" in l) and "0 failed" not in l for l in lines)
    meta["confirmed"] = {"existing_157_tests_green_with_change": suite_green, "demo_passes_without_change": demo_clean_ok, "demo_fails_with_change": demo_fails}
    os.remove(f"{R.REPO}/tests/seeded_demo.rs")
    rc, out = R.build()
    if rc != 0 or "error[" in out:
        print("harness does not build against the change", out); sys.exit(2)
    res = {}
    for pid in ids:
        rc, sig, secs = R.run_check(pid)
        res[pid] = {"exit": rc, "signature": sig, "seconds": round(secs, 1)}
    caught = [p for p, r in res.items() if r["exit"] == 1]
    meta["quick_checks"] = res
    meta["caught_by"] = caught
    meta["ran"] = f"scratch worktree of /repo HEAD + `git apply patch.diff`; `cargo test --workspace --no-fail-fast --offline`; demo as tests/seeded_demo.rs with and without the change; `nvh <ID> quick` for {','.join(ids)} with the harness pointed at the scratch worktree"
    notes = open(f"{src}/NOTES.md", encoding="utf-8").read() if os.path.exists(f"{src}/NOTES.md") else ""
    meta["needs_to_manifest"] = ""
    dst = f"/verif/seeded/{prop}-{label}"
    os.makedirs(dst, exist_ok=True)
    shutil.copy(patch, f"{dst}/patch.diff")
    shutil.copy(demo, f"{dst}/demo.rs")
    open(f"{dst}/NOTES.agent.md", "w", encoding="utf-8").write(notes)
    json.dump(meta, open(f"{dst}/meta.json", "w"), indent=1, ensure_ascii=False)
    R.revert()
    print(f"{prop}-{label}: confirmed={meta['confirmed']} caught_by={caught} sigs={ {p: res[p]['signature'] for p in caught} }")

main()
