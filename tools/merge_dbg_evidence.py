#!/usr/bin/env python3
"""Folds the replica build's run (evidence-dbg/<ID>.json, written by the same engine) into
evidence/<ID>.json: its counts are reported separately under coverage.debug_profile_replica
and added to coverage.evaluations; distinct_nontrivial stays the optimised build's number."""
import json, sys, os
pid, rc = sys.argv[1], int(sys.argv[2])
profile = sys.argv[3] if len(sys.argv) > 3 else "dbg"
root = os.environ.get("VERIF_ROOT", "/verif")
main, dbg = f"{root}/evidence/{pid}.json", f"{root}/evidence-{profile}/{pid}.json"
try:
    ev = json.load(open(main)); d = json.load(open(dbg))
except Exception as e:
    print("NOTE replica evidence not merged:", e); sys.exit(0)
c = d["coverage"]
ev["coverage"]["debug_profile_replica" if profile == "dbg" else "environment_replica"] = {
    "build": d.get("build_profile"), "environment_set": d.get("environment_set", ""), "evaluations": c["evaluations"], "distinct_nontrivial": c["distinct_nontrivial"],
    "streams": c["streams"], "wall_s": d["wall_s"], "violations": d.get("violations", 0), "exit": rc,
    "scale": os.environ.get("VERIF_SCALE"), "enum_stride": os.environ.get("VERIF_ENUM_STRIDE", "1"), "skipped_streams": os.environ.get("VERIF_SKIP_STREAMS", ""),
}
ev["coverage"]["evaluations"] = int(ev["coverage"]["evaluations"]) + int(c["evaluations"])
ev["wall_s"] = ev["wall_s"] + d["wall_s"]
if d.get("violations", 0):
    ev["violations"] = int(ev.get("violations", 0)) + int(d["violations"])
json.dump(ev, open(main, "w"), indent=1, ensure_ascii=False)
