#!/usr/bin/env python3
"""Regenerates /verif/MANIFEST.json (kept valid at all times)."""
import json, sys
claimed = {
 "C01": ("round-trip oracle over generated enum values (proptest) + small-scope, constructor-inside-constructor and Han keyword-fragment enumerations", "§4 C01"),
 "C02": ("round-trip oracle over generated vocabulary-consistent lexical values (proptest) + enumeration of item combinations", "§4 C02"),
 "C03": ("differential testing of two parsing pipelines on generated strings (formatter output + sugar printer), constructor-pair enumeration and long texts (to 100 000 characters)", "§4 C03"),
 "C04": ("generated-input robustness testing (proptest string generators; libFuzzer campaign in the thorough tier) with a no-panic / returns / error-displayable oracle", "§4 C04"),
 "C05": ("generated-input robustness testing of lexical parse and fold (proptest; libFuzzer in the thorough tier)", "§4 C05"),
 "C06": ("model-based property testing: equality vs canonical-form reference model over construction histories, plus a many-threads stress stream", "§4 C06"),
 "C07": ("property-based testing of the Eq/Hash contract over equal pairs built along different histories, adversarial digest-collision pairs (birthday search) and a many-threads stress stream", "§4 C07"),
 "C08": ("stateful/history property testing: parse_multi vs single parses over generated input sequences", "§4 C08"),
 "C09": ("metamorphic testing: whitespace insertion/removal at token boundaries (all 25 Unicode blanks, runs of up to 100 000) must not change the parse", "§4 C09"),
 "C10": ("property-based testing against independently constructed expected values (bare variants) for surface sugar", "§4 C10"),
 "C11": ("differential testing against a reference PEG recogniser written from the README grammar + hard-coded OpenNARS lexicon", "§4 C11"),
 "C12": ("property-based testing with a well-formedness validity predicate on every accepted input (proptest; libFuzzer in the thorough tier)", "§4 C12"),
 "C13": ("property-based testing against a reference predicate over special-value float tuples + complete enumeration of the special pool", "§4 C13"),
 "C14": ("property-based testing of consistency laws between accessors + small-scope enumeration over constructors", "§4 C14"),
 "C15": ("property-based testing of algebraic conversion laws on enum and lexical values", "§4 C15"),
 "C16": ("property-based testing: totality, whitespace invariant, injectivity via pairwise comparison and an exhaustive small-scope table", "§4 C16"),
 "C17": ("model-based property testing of the two mutators against a reference model on descriptions + enumeration", "§4 C17"),
}
texts = {
 "C01": "Exploration: every generated well-formed value (all 30 constructors, 3 formats, all decorations, deep and wide shapes) is formatted, re-parsed and compared with a harness-side canonical form; a complete small-scope enumeration pins every constructor/arity/index/decoration. Universally quantified over an infinite space, so generated search cannot prove it; it shows the property on tens of thousands (quick) to millions (thorough) of distinct non-trivial cases.",
 "C02": "Exploration over lexical values drawn from the format's own dictionaries with arbitrary arities and entry counts; exact structural equality after format→parse.",
 "C03": "Exploration: both pipelines must succeed, agree with each other and with the value the text was printed from, on formatter output and on derived-copula sugar; the independent expected value catches slips that hit both pipelines.",
 "C04": "Exploration of the totality clause: each bounded string goes through all seven entry points under catch_unwind with a stall watchdog; thorough adds a coverage-guided libFuzzer campaign with the same oracle.",
 "C05": "Exploration: lexical parse / parse_term on bounded strings and fold of arbitrary lexical values (every field wild) must return without panic; thorough adds libFuzzer.",
 "C06": "Exploration with an explicit reference model (canonical form); hash seeds cannot be chosen, they are re-drawn 8× per case by rebuilding.",
 "C07": "Exploration of the Eq⇒Hash law and of HashSet/HashMap lookups on pairs the library reports equal, built along different histories, 4 fresh hashers per pair.",
 "C08": "Exploration over input histories: every position of a generated batch must behave as the input parsed alone; fragments and failing inputs precede complete ones by construction.",
 "C09": "Exploration with a metamorphic relation over spacings of the token sequence; thorough tier additionally toggles every single boundary of the formatter's spacing.",
 "C10": "Exploration; expected values are assembled from bare enum variants, never through the derived constructors shared by both pipelines.",
 "C11": "Exploration against an independent reference (README PEG recogniser with pest semantics + OpenNARS lexicon typed in by hand), which is what makes formatter and parser drifting together visible.",
 "C12": "Exploration: every Ok value returned for garbage / near-valid input or by folding wild lexical values must satisfy the well-formedness predicate and be formattable everywhere.",
 "C13": "Exploration plus a completed enumeration of the special-value pool (16 values, arity ≤ 3) — exhaustive for that finite sub-space only.",
 "C14": "Exploration plus completed enumeration over constructors × short lists × all image indices.",
 "C15": "Exploration of the conversion laws on enum values and their lexical mirrors in all three formats.",
 "C16": "Exploration: pairwise injectivity on exact and canonical text plus a completed small-scope table (≈12.7k terms) in which canonical rendering → value must be a function.",
 "C17": "Exploration against a reference model of both mutators plus completed constructor × name-pool enumeration.",
}
notes = {
 "default": "Trusted base: the harness's own models (canonical form, token printer gated against the formatter, reference predicates), proptest 1.11 shrinking/seeding, rustc/std; /repo is rebuilt from its working tree by cargo's path-dependency fingerprinting on every run. Findings fixed in /repo are listed in KNOWN_FINDINGS.txt as 'fixed:' and kept as regression replays. Every check runs in two builds of the crate (optimised; opt-level 0 with debug assertions), parses through format values at reused addresses for part of the inputs, and precedes one case in eight with a battery of unrelated API calls (DESIGN.md §2.1, §3.8, §7).",
}
built = sys.argv[1:] if len(sys.argv) > 1 else sorted(claimed)
checks = []
for pid in sorted(claimed):
    if pid not in built: continue
    tech, ref = claimed[pid]
    checks.append({
        "property_id": pid,
        "quick_cmd": f"./check {pid} quick",
        "thorough_cmd": f"./check {pid} thorough",
        "evidence_file": f"evidence/{pid}.json",
        "replay_cmd_template": f"./check {pid} --replay {{path}}",
        "engine": "nvh",
        "level_claimed": {"category": "exploration", "text": texts[pid], "design_ref": "DESIGN.md " + ref},
        "level_note": notes["default"],
        "technique": tech,
    })
na = [{"property_id": p, "reason": "check not built yet in this session; planned (DESIGN.md §4)"} for p in sorted(claimed) if p not in built]
m = {
 "version": 1,
 "setup_cmd": "cd harness && CARGO_NET_OFFLINE=true cargo build --release --offline && CARGO_NET_OFFLINE=true cargo build --profile dbg --offline",
 "hooks": {"guard": "narsese_verif_hooks", "enable": "no hook exists: every property is observable through the public API, so /repo is built unmodified (cargo feature list untouched)", "baseline_off_cmd": "cd /repo && cargo test --workspace --no-fail-fast --offline", "source_commits": [], "add_only": True},
 "engines": [
   {"name": "nvh", "path": "harness/", "serves_properties": [c["property_id"] for c in checks], "kind_free_text": "Rust binary: proptest TestRunner streams (seeded by VERIF_SEED, sharded over threads), small-scope enumerations, regression replays, known-finding probes, stall watchdog, evidence writer; built twice (optimised, and a replica with the narsese crate at opt-level 0 + debug assertions) and run in both builds by ./check"},
   {"name": "fuzz", "path": "harness/fuzz/", "serves_properties": ["C04", "C05", "C12"], "kind_free_text": "cargo-fuzz / libFuzzer targets enum_total and lexical_total with the oracles inside the target; run by ./fuzz_stage in the thorough tier"},
 ],
 "checks": checks,
 "not_applicable": na,
 "notes": "All checks: exit 0 held / 1 VIOLATION line with replay file / 2 infrastructure or inconclusive. Genuine defects found while building were repaired by 'fix:' commits in /repo (see KNOWN_FINDINGS.txt); no known findings are suppressed.",
}
json.dump(m, open("/verif/MANIFEST.json", "w"), indent=1, ensure_ascii=False)
print("checks:", len(checks), "not_applicable:", len(na))
