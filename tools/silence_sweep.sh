#!/bin/bash
# runs every quick check (optimised build and replica build, as ./check does) with several seeds from
# fresh processes on the current tree; all must exit 0. Evidence goes to a scratch root, /verif/evidence
# is left alone.   usage: tools/silence_sweep.sh [seeds…]
cd /verif || exit 2
export CARGO_NET_OFFLINE=true
( cd harness && cargo build --release --offline >/dev/null 2>&1 && cargo build --profile dbg --offline >/dev/null 2>&1 ) || { echo "build failed"; exit 2; }
R=$(mktemp -d /tmp/nvh-sweep.XXXXXX); mkdir -p $R/replays; cp KNOWN_FINDINGS.txt $R/; cp -r replays/regress $R/replays/
fail=0
for seed in ${@:-0 1 2 3 4 5}; do
  for i in 01 02 03 04 05 06 07 08 09 10 11 12 13 14 15 16 17; do
    out=$(VERIF_ROOT=$R VERIF_SEED=$seed timeout 900 harness/target/release/nvh C$i quick 2>&1); rc=$?
    if [ $rc -eq 0 ]; then
      out=$(VERIF_ROOT=$R VERIF_SEED=$seed VERIF_PROFILE=dbg VERIF_SCALE=0.5 VERIF_SKIP_STREAMS=long-texts timeout 900 harness/target/dbg/nvh C$i quick 2>&1); rc=$?
    fi
    if [ $rc -ne 0 ] || echo "$out" | grep -q "^VIOLATION"; then echo "seed=$seed C$i rc=$rc"; echo "$out" | grep -v "^KNOWN" | head -8; fail=1; mkdir -p /tmp/nvh-sweep-failures; cp $R/replays/found/* /tmp/nvh-sweep-failures/ 2>/dev/null; fi
  done
  echo "seed $seed done"
done
rm -rf $R
exit $fail
