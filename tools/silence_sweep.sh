#!/bin/bash
# runs every quick check with several seeds from fresh processes on the current tree; all must exit 0
cd /verif || exit 2
fail=0
for seed in ${@:-0 1 2 3 4 5}; do
  for i in 01 02 03 04 05 06 07 08 09 10 11 12 13 14 15 16 17; do
    out=$(VERIF_SEED=$seed ./check C$i quick 2>&1); rc=$?
    if [ $rc -ne 0 ] || echo "$out" | grep -q "^VIOLATION"; then echo "seed=$seed C$i rc=$rc"; echo "$out" | grep -v "^KNOWN" | head -5; fail=1; fi
  done
  echo "seed $seed done"
done
exit $fail
