#!/usr/bin/env python3
import json, sys
pid, execs, units, targets, jobs, runs, seed, rc = sys.argv[1:9]
path = f"/verif/evidence/{pid}.json"
try:
    ev = json.load(open(path))
except Exception:
    sys.exit(0)
cov = ev["coverage"]
cov["fuzz"] = {"engine": "libFuzzer via cargo-fuzz (ASan, debug assertions on)", "targets": targets.split(), "jobs": int(jobs), "runs_per_job": int(runs),
               "seed": int(seed), "executions": int(execs), "final_corpus_units": int(units), "max_len": 2048, "oracle_inside_target": True}
cov["evaluations"] = int(cov.get("evaluations", 0)) + int(execs)
if int(rc) == 1:
    ev["violations"] = int(ev.get("violations", 0)) + 1
json.dump(ev, open(path, "w"), indent=1, ensure_ascii=False)
