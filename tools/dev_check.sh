#!/bin/bash
# development helper: run a check WITHOUT touching /verif/evidence (scratch root under /tmp)
# usage: tools/dev_check.sh <ID> quick|thorough [seed]
R=/tmp/nvh-devroot; mkdir -p $R/replays; cp /verif/KNOWN_FINDINGS.txt $R/; rm -rf $R/replays/regress; cp -r /verif/replays/regress $R/replays/
( cd /verif/harness && cargo build --release --offline >/dev/null 2>&1 ) || { echo "build failed"; exit 2; }
VERIF_ROOT=$R VERIF_SEED=${3:-0} /verif/harness/target/release/nvh "$1" "$2"
