#!/bin/bash
# crash_triage.sh <nvh binary> <ID> <found dir> <signal>
# The harness process died by a signal. Its crash recorder left one candidate file per
# worker thread (the case each thread was executing). Replay each candidate in an isolated
# process: the one that dies again (or fails its oracle) is the culprit.
BIN="$1"; ID="$2"; DIR="$3"; SIG="$4"
found=0
for f in "$DIR"/crash-*.json; do
  [ -e "$f" ] || continue
  out=$(timeout -k 5 120 "$BIN" "$ID" --replay "$f" 2>&1); rc=$?
  if [ $rc -gt 128 ] || [ $rc -eq 124 ] || echo "$out" | grep -q "^VIOLATION"; then
    keep="$DIR/$ID-crash-$(basename "$f" .json | sed 's/^crash-//').json"
    mv "$f" "$keep"
    echo "VIOLATION property=$ID replay=$keep"
    if [ $rc -gt 128 ]; then echo "  the process dies with signal $((rc-128)) on this case (abort / stack overflow / segfault) — reproduced in isolation";
    elif [ $rc -eq 124 ]; then echo "  the case does not return within 120 s in isolation";
    else echo "$out" | grep -v "^VIOLATION" | head -8; fi
    found=1
  else
    rm -f "$f"
  fi
done
if [ $found -eq 1 ]; then exit 1; fi
echo "INCONCLUSIVE property=$ID harness process died with signal $SIG and no recorded case reproduces it in isolation"
exit 2
