#!/bin/bash
# crash_triage.sh <nvh binary> <ID> <found dir> <signal> [tier]
# The harness process died by a signal. Its crash recorder left one candidate file per
# worker thread (the case each thread was executing). Replay each candidate in an isolated
# process: the one that dies again (or fails its oracle) is the culprit.
# Only the totality checks record every case eagerly. For the others nothing may have been
# recorded: the same run (same seed, deterministic) is then repeated once with
# VERIF_RECORD_ALL=1, which records every case before it is evaluated, and triaged again.
BIN="$1"; ID="$2"; DIR="$3"; SIG="$4"; TIER="$5"
triage() {
  local found=0
  for f in "$DIR"/crash-*.json; do
    [ -e "$f" ] || continue
    out=$(timeout -k 5 120 "$BIN" "$ID" --replay "$f" 2>&1); rc=$?
    if [ $rc -gt 128 ] || [ $rc -eq 124 ] || echo "$out" | grep -q "^VIOLATION"; then
      keep="$DIR/$ID-crash-$(basename "$f" .json | sed 's/^crash-//').json"
      mv "$f" "$keep"
      echo "VIOLATION property=$ID replay=$keep"
      if [ $rc -gt 128 ]; then echo "  the process dies with signal $((rc-128)) on this case (abort / stack overflow / segfault) — reproduced in isolation";
      elif [ $rc -eq 124 ]; then echo "  the case does not return within 120 s in isolation";
      else echo "$out" | grep -v "^VIOLATION" | head -8; fi
      found=1
    else
      rm -f "$f"
    fi
  done
  return $found
}
triage; if [ $? -eq 1 ]; then exit 1; fi
if [ -n "$TIER" ] && [ -z "$VERIF_RECORD_ALL" ]; then
  echo "NOTE property=$ID the process died with signal $SIG and no recorded case reproduces it; repeating the run with every case recorded"
  { VERIF_RECORD_ALL=1 timeout -k 10 7200 "$BIN" "$ID" "$TIER" >/dev/null 2>&1; } 2>/dev/null; rc=$?
  if [ $rc -gt 128 ] && [ $rc -ne 137 ]; then
    triage; if [ $? -eq 1 ]; then exit 1; fi
  fi
fi
echo "INCONCLUSIVE property=$ID harness process died with signal $SIG and no recorded case reproduces it in isolation"
exit 2
