#![no_main]
use libfuzzer_sys::fuzz_target;
use nvh::fuzzglue;

fuzz_target!(|data: &[u8]| {
    fuzzglue::run("lexical_total", data);
});
