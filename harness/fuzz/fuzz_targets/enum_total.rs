#![no_main]
use libfuzzer_sys::fuzz_target;
use nvh::fuzzglue;

fuzz_target!(|data: &[u8]| {
    fuzzglue::run("enum_total", data);
});
