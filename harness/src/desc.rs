//! Harness-side pure descriptions of enum Narsese values, the canonical form
//! (semantic-identity oracle) and construction of real library values.
use narsese::api::{GetBudget, GetPunctuation, GetStamp, GetTerm, GetTruth};
use narsese::enum_narsese::{Budget, Narsese, Punctuation, Sentence, Stamp, Task, Term, Truth};
use serde::{Deserialize, Serialize};
use std::collections::HashSet;

#[derive(Clone, Copy, Debug, PartialEq, Eq, Hash, PartialOrd, Ord, Serialize, Deserialize)]
pub enum Kind {
    Word,
    Placeholder,
    IVar,
    DVar,
    QVar,
    Interval,
    Op,
    SetExt,
    SetInt,
    IntExt,
    IntInt,
    DiffExt,
    DiffInt,
    Product,
    ImgExt,
    ImgInt,
    Conj,
    Disj,
    Neg,
    Seq,
    Par,
    Inh,
    Sim,
    Imp,
    Equ,
    ImpPred,
    ImpConc,
    ImpRetro,
    EquPred,
    EquConc,
}
pub use Kind::*;

pub const ALL_KINDS: [Kind; 30] = [
    Word, Placeholder, IVar, DVar, QVar, Interval, Op, SetExt, SetInt, IntExt, IntInt, DiffExt,
    DiffInt, Product, ImgExt, ImgInt, Conj, Disj, Neg, Seq, Par, Inh, Sim, Imp, Equ, ImpPred,
    ImpConc, ImpRetro, EquPred, EquConc,
];
pub const NAMED_ATOMS: [Kind; 5] = [Word, IVar, DVar, QVar, Op];
pub const SET_LIKE: [Kind; 7] = [SetExt, SetInt, IntExt, IntInt, Conj, Disj, Par];
pub const ORDERED_MULTI: [Kind; 2] = [Product, Seq];
pub const IMAGES: [Kind; 2] = [ImgExt, ImgInt];
pub const ASYM_STATEMENTS: [Kind; 6] = [Inh, Imp, ImpPred, ImpConc, ImpRetro, EquPred];
pub const SYM_STATEMENTS: [Kind; 3] = [Sim, Equ, EquConc];

impl Kind {
    pub fn is_atom(self) -> bool {
        matches!(self, Word | Placeholder | IVar | DVar | QVar | Interval | Op)
    }
    pub fn is_named_atom(self) -> bool {
        matches!(self, Word | IVar | DVar | QVar | Op)
    }
    pub fn is_set_like(self) -> bool {
        matches!(self, SetExt | SetInt | IntExt | IntInt | Conj | Disj | Par)
    }
    pub fn is_image(self) -> bool {
        matches!(self, ImgExt | ImgInt)
    }
    pub fn is_statement(self) -> bool {
        matches!(
            self,
            Inh | Sim | Imp | Equ | ImpPred | ImpConc | ImpRetro | EquPred | EquConc
        )
    }
    pub fn is_sym_statement(self) -> bool {
        matches!(self, Sim | Equ | EquConc)
    }
    pub fn is_compound(self) -> bool {
        !self.is_atom() && !self.is_statement()
    }
    /// exactly-two ordered
    pub fn is_binary_ordered(self) -> bool {
        matches!(self, DiffExt | DiffInt) || (self.is_statement() && !self.is_sym_statement())
    }
    pub fn is_ordered_multi(self) -> bool {
        matches!(self, Product | Seq)
    }
    /// variable arity compound
    pub fn is_multi(self) -> bool {
        self.is_set_like() || self.is_ordered_multi() || self.is_image()
    }
}

/// Description of a term. `name` for named atoms, `n` = interval value or image
/// placeholder index, `kids` = components (images: WITHOUT the placeholder).
#[derive(Clone, PartialEq, Eq, Hash, PartialOrd, Ord, Serialize, Deserialize)]
pub struct D {
    pub k: Kind,
    #[serde(default, skip_serializing_if = "String::is_empty")]
    pub name: String,
    #[serde(default, skip_serializing_if = "is_zero")]
    pub n: usize,
    #[serde(default, skip_serializing_if = "Vec::is_empty")]
    pub kids: Vec<D>,
}
fn is_zero(n: &usize) -> bool {
    *n == 0
}

fn compact(f: &mut std::fmt::Formatter<'_>, k: Kind, name: &str, n: usize, kids: &[impl std::fmt::Debug]) -> std::fmt::Result {
    write!(f, "{k:?}")?;
    if k.is_named_atom() {
        write!(f, "({name:?})")?;
    } else if k == Interval {
        write!(f, "({n})")?;
    } else if k.is_image() {
        write!(f, "@{n}")?;
    }
    if !kids.is_empty() {
        write!(f, "[")?;
        for (i, c) in kids.iter().enumerate() {
            if i > 0 {
                write!(f, ", ")?;
            }
            write!(f, "{c:?}")?;
        }
        write!(f, "]")?;
    }
    Ok(())
}
/// compact rendering, e.g. `Inh[SetExt[Word("a")], ImgExt@1[Word("r"), IVar("x")]]`
impl std::fmt::Debug for D {
    fn fmt(&self, f: &mut std::fmt::Formatter<'_>) -> std::fmt::Result {
        compact(f, self.k, &self.name, self.n, &self.kids)
    }
}
impl std::fmt::Debug for C {
    fn fmt(&self, f: &mut std::fmt::Formatter<'_>) -> std::fmt::Result {
        compact(f, self.k, &self.name, self.n, &self.kids)
    }
}

impl D {
    pub fn atom(k: Kind, name: &str) -> D {
        D { k, name: name.to_string(), n: 0, kids: vec![] }
    }
    pub fn word(name: &str) -> D {
        D::atom(Word, name)
    }
    pub fn placeholder() -> D {
        D { k: Placeholder, name: String::new(), n: 0, kids: vec![] }
    }
    pub fn interval(n: usize) -> D {
        D { k: Interval, name: String::new(), n, kids: vec![] }
    }
    pub fn node(k: Kind, kids: Vec<D>) -> D {
        D { k, name: String::new(), n: 0, kids }
    }
    pub fn image(k: Kind, idx: usize, kids: Vec<D>) -> D {
        D { k, name: String::new(), n: idx, kids }
    }
    pub fn depth(&self) -> usize {
        1 + self.kids.iter().map(|k| k.depth()).max().unwrap_or(0)
    }
    pub fn size(&self) -> usize {
        1 + self.kids.iter().map(|k| k.size()).sum::<usize>()
    }
    pub fn visit<'a>(&'a self, f: &mut dyn FnMut(&'a D)) {
        f(self);
        for k in &self.kids {
            k.visit(f);
        }
    }
    pub fn any(&self, f: &dyn Fn(&D) -> bool) -> bool {
        f(self) || self.kids.iter().any(|k| k.any(f))
    }
    pub fn kinds(&self) -> Vec<Kind> {
        let mut v = vec![];
        self.visit(&mut |d| v.push(d.k));
        v
    }
    /// structurally valid w.r.t. arity (the generator guarantees it; replay files are checked)
    pub fn arity_ok(&self) -> bool {
        let n = self.kids.len();
        let ok = if self.k.is_atom() {
            n == 0
        } else if self.k == Neg {
            n == 1
        } else if self.k.is_binary_ordered() || self.k.is_sym_statement() {
            n == 2
        } else if self.k.is_image() {
            n >= 1 && self.n <= n
        } else {
            n >= 1
        };
        ok && self.kids.iter().all(|k| k.arity_ok())
    }
}

/// canonical form: unordered nodes sorted + deduplicated, symmetric statements sorted.
#[derive(Clone, PartialEq, Eq, Hash, PartialOrd, Ord, Serialize, Deserialize)]
pub struct C {
    pub k: Kind,
    pub name: String,
    pub n: usize,
    pub kids: Vec<C>,
}

fn canon_finish(k: Kind, name: String, n: usize, mut kids: Vec<C>) -> C {
    if k.is_set_like() {
        kids.sort();
        kids.dedup();
    } else if k.is_sym_statement() {
        kids.sort();
    }
    C { k, name, n, kids }
}

pub fn canon_d(d: &D) -> C {
    let kids = d.kids.iter().map(canon_d).collect();
    let name = if d.k.is_named_atom() { d.name.clone() } else { String::new() };
    let n = if d.k == Interval || d.k.is_image() { d.n } else { 0 };
    canon_finish(d.k, name, n, kids)
}

pub fn kind_of(t: &Term) -> Kind {
    match t {
        Term::Word(..) => Word,
        Term::Placeholder => Placeholder,
        Term::VariableIndependent(..) => IVar,
        Term::VariableDependent(..) => DVar,
        Term::VariableQuery(..) => QVar,
        Term::Interval(..) => Interval,
        Term::Operator(..) => Op,
        Term::SetExtension(..) => SetExt,
        Term::SetIntension(..) => SetInt,
        Term::IntersectionExtension(..) => IntExt,
        Term::IntersectionIntension(..) => IntInt,
        Term::DifferenceExtension(..) => DiffExt,
        Term::DifferenceIntension(..) => DiffInt,
        Term::Product(..) => Product,
        Term::ImageExtension(..) => ImgExt,
        Term::ImageIntension(..) => ImgInt,
        Term::Conjunction(..) => Conj,
        Term::Disjunction(..) => Disj,
        Term::Negation(..) => Neg,
        Term::ConjunctionSequential(..) => Seq,
        Term::ConjunctionParallel(..) => Par,
        Term::Inheritance(..) => Inh,
        Term::Similarity(..) => Sim,
        Term::Implication(..) => Imp,
        Term::Equivalence(..) => Equ,
        Term::ImplicationPredictive(..) => ImpPred,
        Term::ImplicationConcurrent(..) => ImpConc,
        Term::ImplicationRetrospective(..) => ImpRetro,
        Term::EquivalencePredictive(..) => EquPred,
        Term::EquivalenceConcurrent(..) => EquConc,
    }
}

/// canonical form of a real term; reads the public enum variants directly and never
/// uses the library's `==`/`Hash` (whose correctness C06/C07 decide).
pub fn canon_t(t: &Term) -> C {
    use Term as T;
    let k = kind_of(t);
    match t {
        T::Word(s) | T::VariableIndependent(s) | T::VariableDependent(s) | T::VariableQuery(s)
        | T::Operator(s) => C { k, name: s.clone(), n: 0, kids: vec![] },
        T::Placeholder => C { k, name: String::new(), n: 0, kids: vec![] },
        T::Interval(n) => C { k, name: String::new(), n: *n, kids: vec![] },
        T::SetExtension(s)
        | T::SetIntension(s)
        | T::IntersectionExtension(s)
        | T::IntersectionIntension(s)
        | T::Conjunction(s)
        | T::Disjunction(s)
        | T::ConjunctionParallel(s) => {
            canon_finish(k, String::new(), 0, s.iter().map(canon_t).collect())
        }
        T::Product(v) | T::ConjunctionSequential(v) => {
            canon_finish(k, String::new(), 0, v.iter().map(canon_t).collect())
        }
        T::ImageExtension(i, v) | T::ImageIntension(i, v) => {
            canon_finish(k, String::new(), *i, v.iter().map(canon_t).collect())
        }
        T::Negation(a) => canon_finish(k, String::new(), 0, vec![canon_t(a)]),
        T::DifferenceExtension(a, b)
        | T::DifferenceIntension(a, b)
        | T::Inheritance(a, b)
        | T::Similarity(a, b)
        | T::Implication(a, b)
        | T::Equivalence(a, b)
        | T::ImplicationPredictive(a, b)
        | T::ImplicationConcurrent(a, b)
        | T::ImplicationRetrospective(a, b)
        | T::EquivalencePredictive(a, b)
        | T::EquivalenceConcurrent(a, b) => {
            canon_finish(k, String::new(), 0, vec![canon_t(a), canon_t(b)])
        }
    }
}

/// Description → real term built from the bare public variants (NOT through the
/// `new_*` constructors), in description order.
pub fn build_raw(d: &D) -> Term {
    use Term as T;
    let b = |i: usize| Box::new(build_raw(&d.kids[i]));
    let set = || -> HashSet<Term> { d.kids.iter().map(build_raw).collect() };
    let vec = || -> Vec<Term> { d.kids.iter().map(build_raw).collect() };
    match d.k {
        Word => T::Word(d.name.clone()),
        Placeholder => T::Placeholder,
        IVar => T::VariableIndependent(d.name.clone()),
        DVar => T::VariableDependent(d.name.clone()),
        QVar => T::VariableQuery(d.name.clone()),
        Interval => T::Interval(d.n),
        Op => T::Operator(d.name.clone()),
        SetExt => T::SetExtension(set()),
        SetInt => T::SetIntension(set()),
        IntExt => T::IntersectionExtension(set()),
        IntInt => T::IntersectionIntension(set()),
        DiffExt => T::DifferenceExtension(b(0), b(1)),
        DiffInt => T::DifferenceIntension(b(0), b(1)),
        Product => T::Product(vec()),
        ImgExt => T::ImageExtension(d.n, vec()),
        ImgInt => T::ImageIntension(d.n, vec()),
        Conj => T::Conjunction(set()),
        Disj => T::Disjunction(set()),
        Neg => T::Negation(b(0)),
        Seq => T::ConjunctionSequential(vec()),
        Par => T::ConjunctionParallel(set()),
        Inh => T::Inheritance(b(0), b(1)),
        Sim => T::Similarity(b(0), b(1)),
        Imp => T::Implication(b(0), b(1)),
        Equ => T::Equivalence(b(0), b(1)),
        ImpPred => T::ImplicationPredictive(b(0), b(1)),
        ImpConc => T::ImplicationConcurrent(b(0), b(1)),
        ImpRetro => T::ImplicationRetrospective(b(0), b(1)),
        EquPred => T::EquivalencePredictive(b(0), b(1)),
        EquConc => T::EquivalenceConcurrent(b(0), b(1)),
    }
}

/// Description → real term through the public `new_*` constructors.
pub fn build_ctor(d: &D) -> Term {
    use Term as T;
    let k = |i: usize| build_ctor(&d.kids[i]);
    let all = || d.kids.iter().map(build_ctor).collect::<Vec<_>>();
    match d.k {
        Word => T::new_word(d.name.clone()),
        Placeholder => T::new_placeholder(),
        IVar => T::new_variable_independent(d.name.clone()),
        DVar => T::new_variable_dependent(d.name.clone()),
        QVar => T::new_variable_query(d.name.clone()),
        Interval => T::new_interval(d.n),
        Op => T::new_operator(d.name.clone()),
        SetExt => T::new_set_extension(all()),
        SetInt => T::new_set_intension(all()),
        IntExt => T::new_intersection_extension(all()),
        IntInt => T::new_intersection_intension(all()),
        DiffExt => T::new_difference_extension(k(0), k(1)),
        DiffInt => T::new_difference_intension(k(0), k(1)),
        Product => T::new_product(all()),
        ImgExt => T::new_image_extension(d.n, all()),
        ImgInt => T::new_image_intension(d.n, all()),
        Conj => T::new_conjunction(all()),
        Disj => T::new_disjunction(all()),
        Neg => T::new_negation(k(0)),
        Seq => T::new_conjunction_sequential(all()),
        Par => T::new_conjunction_parallel(all()),
        Inh => T::new_inheritance(k(0), k(1)),
        Sim => T::new_similarity(k(0), k(1)),
        Imp => T::new_implication(k(0), k(1)),
        Equ => T::new_equivalence(k(0), k(1)),
        ImpPred => T::new_implication_predictive(k(0), k(1)),
        ImpConc => T::new_implication_concurrent(k(0), k(1)),
        ImpRetro => T::new_implication_retrospective(k(0), k(1)),
        EquPred => T::new_equivalence_predictive(k(0), k(1)),
        EquConc => T::new_equivalence_concurrent(k(0), k(1)),
    }
}

/// Real term → description (component order as the instance reports it).
pub fn desc_of(t: &Term) -> D {
    let c = canon_t_unsorted(t);
    fn conv(c: &C) -> D {
        D { k: c.k, name: c.name.clone(), n: c.n, kids: c.kids.iter().map(conv).collect() }
    }
    conv(&c)
}
fn canon_t_unsorted(t: &Term) -> C {
    let k = kind_of(t);
    let mut c = canon_t(t);
    // canon_t sorts; for a description the order does not matter semantically.
    c.k = k;
    c
}

// ---------------------------------------------------------------------------------------
// sentences / tasks

#[derive(Clone, Copy, Debug, PartialEq, Eq, Hash, PartialOrd, Ord, Serialize, Deserialize)]
pub enum P {
    Judgement,
    Goal,
    Question,
    Quest,
}
pub const ALL_P: [P; 4] = [P::Judgement, P::Goal, P::Question, P::Quest];

#[derive(Clone, Copy, Debug, PartialEq, Eq, Hash, PartialOrd, Ord, Serialize, Deserialize)]
pub enum St {
    Eternal,
    Past,
    Present,
    Future,
    Fixed(isize),
}

/// f64 stored as raw bits so replay files are exact
#[derive(Clone, Copy, PartialEq, Eq, Hash, PartialOrd, Ord, Serialize, Deserialize)]
pub struct F(pub u64);
impl F {
    pub fn of(x: f64) -> F {
        F(x.to_bits())
    }
    pub fn f(self) -> f64 {
        f64::from_bits(self.0)
    }
}
impl std::fmt::Debug for F {
    fn fmt(&self, f: &mut std::fmt::Formatter<'_>) -> std::fmt::Result {
        write!(f, "{:?}", self.f())
    }
}

#[derive(Clone, Debug, PartialEq, Eq, Hash, PartialOrd, Ord, Serialize, Deserialize)]
pub struct SD {
    pub term: D,
    pub punct: P,
    pub stamp: St,
    /// 0..=2 numbers; always empty for Question / Quest
    pub truth: Vec<F>,
}

#[derive(Clone, Debug, PartialEq, Eq, Hash, PartialOrd, Ord, Serialize, Deserialize)]
pub struct TD {
    pub s: SD,
    /// 0..=3 numbers
    pub budget: Vec<F>,
}

#[derive(Clone, Debug, PartialEq, Eq, Hash, PartialOrd, Ord, Serialize, Deserialize)]
pub enum ND {
    Term(D),
    Sentence(SD),
    Task(TD),
}

impl ND {
    pub fn term(&self) -> &D {
        match self {
            ND::Term(d) => d,
            ND::Sentence(s) => &s.term,
            ND::Task(t) => &t.s.term,
        }
    }
    pub fn term_mut(&mut self) -> &mut D {
        match self {
            ND::Term(d) => d,
            ND::Sentence(s) => &mut s.term,
            ND::Task(t) => &mut t.s.term,
        }
    }
    pub fn kind_name(&self) -> &'static str {
        match self {
            ND::Term(_) => "term",
            ND::Sentence(_) => "sentence",
            ND::Task(_) => "task",
        }
    }
}

/// canonical form of a whole Narsese value
#[derive(Clone, Debug, PartialEq, Eq, Hash, PartialOrd, Ord, Serialize, Deserialize)]
pub struct CN {
    pub kind: u8, // 0 term 1 sentence 2 task
    pub term: C,
    pub punct: Option<P>,
    pub stamp: Option<St>,
    pub truth: Vec<F>,
    pub budget: Option<Vec<F>>,
}

pub fn canon_nd(v: &ND) -> CN {
    match v {
        ND::Term(d) => CN { kind: 0, term: canon_d(d), punct: None, stamp: None, truth: vec![], budget: None },
        ND::Sentence(s) => CN {
            kind: 1,
            term: canon_d(&s.term),
            punct: Some(s.punct),
            stamp: Some(s.stamp),
            truth: s.truth.clone(),
            budget: None,
        },
        ND::Task(t) => CN {
            kind: 2,
            term: canon_d(&t.s.term),
            punct: Some(t.s.punct),
            stamp: Some(t.s.stamp),
            truth: t.s.truth.clone(),
            budget: Some(t.budget.clone()),
        },
    }
}

pub fn p_of(p: &Punctuation) -> P {
    match p {
        Punctuation::Judgement => P::Judgement,
        Punctuation::Goal => P::Goal,
        Punctuation::Question => P::Question,
        Punctuation::Quest => P::Quest,
    }
}
pub fn st_of(s: &Stamp) -> St {
    match s {
        Stamp::Eternal => St::Eternal,
        Stamp::Past => St::Past,
        Stamp::Present => St::Present,
        Stamp::Future => St::Future,
        Stamp::Fixed(t) => St::Fixed(*t),
    }
}
pub fn truth_of(t: Option<&Truth>) -> Vec<F> {
    match t {
        None | Some(Truth::Empty) => vec![],
        Some(Truth::Single(f)) => vec![F::of(*f)],
        Some(Truth::Double(f, c)) => vec![F::of(*f), F::of(*c)],
    }
}
pub fn budget_of(b: &Budget) -> Vec<F> {
    match b {
        Budget::Empty => vec![],
        Budget::Single(p) => vec![F::of(*p)],
        Budget::Double(p, d) => vec![F::of(*p), F::of(*d)],
        Budget::Triple(p, d, q) => vec![F::of(*p), F::of(*d), F::of(*q)],
    }
}

pub fn canon_sentence(s: &Sentence) -> CN {
    CN {
        kind: 1,
        term: canon_t(s.get_term()),
        punct: Some(p_of(s.get_punctuation())),
        stamp: Some(st_of(s.get_stamp())),
        truth: truth_of(s.get_truth()),
        budget: None,
    }
}

pub fn canon_n(v: &Narsese) -> CN {
    match v {
        Narsese::Term(t) => CN { kind: 0, term: canon_t(t), punct: None, stamp: None, truth: vec![], budget: None },
        Narsese::Sentence(s) => canon_sentence(s),
        Narsese::Task(t) => {
            let mut c = canon_sentence(t.get_sentence());
            c.kind = 2;
            c.budget = Some(budget_of(t.get_budget()));
            c
        }
    }
}

pub fn build_truth(v: &[F]) -> Truth {
    match v.len() {
        0 => Truth::Empty,
        1 => Truth::Single(v[0].f()),
        _ => Truth::Double(v[0].f(), v[1].f()),
    }
}
pub fn build_budget(v: &[F]) -> Budget {
    match v.len() {
        0 => Budget::Empty,
        1 => Budget::Single(v[0].f()),
        2 => Budget::Double(v[0].f(), v[1].f()),
        _ => Budget::Triple(v[0].f(), v[1].f(), v[2].f()),
    }
}
pub fn build_stamp(s: St) -> Stamp {
    match s {
        St::Eternal => Stamp::Eternal,
        St::Past => Stamp::Past,
        St::Present => Stamp::Present,
        St::Future => Stamp::Future,
        St::Fixed(t) => Stamp::Fixed(t),
    }
}
pub fn build_punct(p: P) -> Punctuation {
    match p {
        P::Judgement => Punctuation::Judgement,
        P::Goal => Punctuation::Goal,
        P::Question => Punctuation::Question,
        P::Quest => Punctuation::Quest,
    }
}
pub fn build_sentence_with(s: &SD, term: Term) -> Sentence {
    let stamp = build_stamp(s.stamp);
    match s.punct {
        P::Judgement => Sentence::Judgement(term, build_truth(&s.truth), stamp),
        P::Goal => Sentence::Goal(term, build_truth(&s.truth), stamp),
        P::Question => Sentence::Question(term, stamp),
        P::Quest => Sentence::Quest(term, stamp),
    }
}
pub fn build_sentence(s: &SD) -> Sentence {
    build_sentence_with(s, build_raw(&s.term))
}
pub fn build_task(t: &TD) -> Task {
    Task(build_sentence(&t.s), build_budget(&t.budget))
}
pub fn build_n(v: &ND) -> Narsese {
    match v {
        ND::Term(d) => Narsese::Term(build_raw(d)),
        ND::Sentence(s) => Narsese::Sentence(build_sentence(s)),
        ND::Task(t) => Narsese::Task(build_task(t)),
    }
}

/// FNV-1a fingerprint of any Debug-printable case (used for distinct counting)
pub fn fp<T: std::fmt::Debug>(t: &T) -> u64 {
    fp_str(&format!("{t:?}"))
}
pub fn fp_str(s: &str) -> u64 {
    let mut h: u64 = 0xcbf29ce484222325;
    for b in s.as_bytes() {
        h ^= *b as u64;
        h = h.wrapping_mul(0x100000001b3);
    }
    h
}
