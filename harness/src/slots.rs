//! Format values at a REUSED address.
//!
//! The shipped formats are values (`pub const` tables for the enum side, `create_format_*()` for
//! the lexical side); what a parser does may depend on their content only, never on where a
//! value happens to live. The rest of the harness goes through the statics of `fmts`, whose
//! addresses never change — a cache keyed by the address of the format would be invisible there.
//! Here every worker thread owns ONE heap slot per side; a call loads another shipped format
//! into the slot and parses a small statement with it (the prelude), then overwrites the slot
//! in place with the format it needs and parses the real input through the same address. The
//! history is part of the call, so a failure replays from the saved case alone.
use crate::fmts;
use narsese::conversion::string::impl_enum::format_instances as ef;
use narsese::conversion::string::impl_enum::NarseseFormat as EFormat;
use narsese::conversion::string::impl_lexical::format_instances as lf;
use narsese::conversion::string::impl_lexical::NarseseFormat as LFormat;
use narsese::enum_narsese::Narsese;
use std::cell::RefCell;

fn e_value(fi: usize) -> EFormat<&'static str> {
    match fi {
        0 => ef::FORMAT_ASCII,
        1 => ef::FORMAT_LATEX,
        _ => ef::FORMAT_HAN,
    }
}
fn l_value(fi: usize) -> LFormat {
    match fi {
        0 => lf::create_format_ascii(),
        1 => lf::create_format_latex(),
        _ => lf::create_format_han(),
    }
}

/// `<a --> b>.` as each format prints it (an atom that runs into a copula)
fn probe(fi: usize) -> &'static str {
    ["<a --> b>.", "\\left<a \\rightarrow{} b\\right>.", "「a是b」。"][fi.min(2)]
}

thread_local! {
    static E_SLOT: RefCell<Option<Box<EFormat<&'static str>>>> = const { RefCell::new(None) };
    static L_SLOT: RefCell<Option<Box<LFormat>>> = const { RefCell::new(None) };
}

/// FNV-1a of the input: which history a call gets is a function of the input alone
pub fn key_of(s: &str) -> u64 {
    let mut h: u64 = 0xcbf29ce484222325;
    for b in s.bytes() {
        h ^= b as u64;
        h = h.wrapping_mul(0x100000001b3);
    }
    h
}

/// Some(other format to load first) for half of the inputs (enum side; a quarter on the lexical
/// side), None = use the static table
pub fn history(fi: usize, key: u64) -> Option<usize> {
    match key % 4 {
        2 => Some((fi + 1) % 3),
        3 => Some((fi + 2) % 3),
        _ => None,
    }
}

/// run `f` with the enum format `fi` — for half of the inputs through the reused slot after
/// another format has been used at that address. If the slot is busy (nested use) the static
/// table is used.
pub fn with_e<R>(fi: usize, key: u64, f: impl FnOnce(&EFormat<&'static str>) -> R) -> R {
    let fi = fi.min(2);
    let Some(other) = history(fi, key) else { return f(fmts::e(fi)) };
    let mut f = Some(f);
    let r = E_SLOT.with(|cell| {
        let Ok(mut guard) = cell.try_borrow_mut() else { return None };
        match guard.as_mut() {
            Some(b) => **b = e_value(other),
            None => *guard = Some(Box::new(e_value(other))),
        }
        let slot: &mut EFormat<&'static str> = guard.as_mut().unwrap();
        let _ = std::panic::catch_unwind(std::panic::AssertUnwindSafe(|| slot.parse::<Narsese>(probe(other)).is_ok()));
        *slot = e_value(fi);
        Some((f.take().unwrap())(slot))
    });
    match r {
        Some(r) => r,
        None => (f.take().unwrap())(fmts::e(fi)),
    }
}

/// the same for the lexical formats (values from `create_format_*()`)
pub fn with_l<R>(fi: usize, key: u64, f: impl FnOnce(&LFormat) -> R) -> R {
    let fi = fi.min(2);
    // (building a lexical format costs ≈ 0.2 ms: a quarter of the inputs go through the slot)
    let Some(other) = (if key % 8 < 4 { history(fi, key) } else { None }) else { return f(fmts::l(fi)) };
    let mut f = Some(f);
    let r = L_SLOT.with(|cell| {
        let Ok(mut guard) = cell.try_borrow_mut() else { return None };
        match guard.as_mut() {
            Some(b) => **b = l_value(other),
            None => *guard = Some(Box::new(l_value(other))),
        }
        let slot: &mut LFormat = guard.as_mut().unwrap();
        let _ = std::panic::catch_unwind(std::panic::AssertUnwindSafe(|| slot.parse(probe(other)).is_ok()));
        *slot = l_value(fi);
        Some((f.take().unwrap())(slot))
    });
    match r {
        Some(r) => r,
        None => (f.take().unwrap())(fmts::l(fi)),
    }
}
