//! Reference recogniser for the "Standard ASCII Lexicon" PEG grammar published in the
//! README (pest syntax), written rule by rule with pest semantics: ordered choice, greedy
//! repetition without back-tracking into repetitions, implicit WHITESPACE* between the
//! elements of non-atomic sequences and repetitions, atomic (@) rules without it.
//! It shares nothing with the library's keyword tables.
use crate::lexgen::{LN, LS, LT};

#[derive(Clone, Copy, PartialEq, Eq, Debug)]
pub enum Cat {
    Letter,
    Number,
    Punct,
    Symbol,
    Space,
    Other,
}

/// Unicode general category, exact for ASCII; outside ASCII only letters / numbers /
/// white space are classified (the generators never produce other non-ASCII characters
/// in the C11 domain), everything else is `Other`.
pub fn cat(c: char) -> Cat {
    if c.is_ascii() {
        return match c {
            'a'..='z' | 'A'..='Z' => Cat::Letter,
            '0'..='9' => Cat::Number,
            '_' | '-' | '(' | ')' | '[' | ']' | '{' | '}' | '!' | '"' | '#' | '%' | '&' | '\'' | '*' | ',' | '.' | '/' | ':' | ';' | '?' | '@' | '\\' => Cat::Punct,
            '+' | '<' | '=' | '>' | '|' | '~' | '$' | '^' | '`' => Cat::Symbol,
            ' ' | '\t' | '\n' | '\r' | '\u{b}' | '\u{c}' => Cat::Space,
            _ => Cat::Other,
        };
    }
    if c.is_whitespace() {
        Cat::Space
    } else if c.is_numeric() {
        Cat::Number
    } else if c.is_alphabetic() {
        Cat::Letter
    } else {
        Cat::Other
    }
}

pub struct Peg {
    s: Vec<char>,
}

type R<T> = Option<(usize, T)>;

impl Peg {
    pub fn new(text: &str) -> Peg {
        Peg { s: text.chars().collect() }
    }
    fn at(&self, p: usize) -> Option<char> {
        self.s.get(p).copied()
    }
    fn ws(&self, mut p: usize) -> usize {
        while let Some(c) = self.at(p) {
            if cat(c) == Cat::Space {
                p += 1;
            } else {
                break;
            }
        }
        p
    }
    fn lit(&self, p: usize, l: &str) -> Option<usize> {
        let mut q = p;
        for c in l.chars() {
            if self.at(q) != Some(c) {
                return None;
            }
            q += 1;
        }
        Some(q)
    }
    fn span(&self, a: usize, b: usize) -> String {
        self.s[a..b].iter().collect()
    }
    fn punct_sym(&self, p: usize) -> Option<usize> {
        match self.at(p).map(cat) {
            Some(Cat::Punct) | Some(Cat::Symbol) => Some(p + 1),
            _ => None,
        }
    }
    fn atom_char(&self, p: usize) -> Option<usize> {
        match self.at(p) {
            Some('_') | Some('-') => Some(p + 1),
            Some(c) if matches!(cat(c), Cat::Letter | Cat::Number) => Some(p + 1),
            _ => None,
        }
    }

    /// copula = @{ (ps "-" ps) | (ps "=" ps) | ("=" ps ">") | ("<" ps ">") }
    fn copula(&self, p: usize) -> Option<usize> {
        let alt = |mid: &str| -> Option<usize> {
            let a = self.punct_sym(p)?;
            let b = self.lit(a, mid)?;
            self.punct_sym(b)
        };
        if let Some(e) = alt("-") {
            return Some(e);
        }
        if let Some(e) = alt("=") {
            return Some(e);
        }
        if let Some(a) = self.lit(p, "=") {
            if let Some(b) = self.punct_sym(a) {
                if let Some(e) = self.lit(b, ">") {
                    return Some(e);
                }
            }
        }
        if let Some(a) = self.lit(p, "<") {
            if let Some(b) = self.punct_sym(a) {
                if let Some(e) = self.lit(b, ">") {
                    return Some(e);
                }
            }
        }
        None
    }

    /// atom_content = @{ atom_char ~ (!copula ~ atom_char)* }
    fn atom_content(&self, p: usize) -> Option<usize> {
        let mut q = self.atom_char(p)?;
        loop {
            if self.copula(q).is_some() {
                break;
            }
            match self.atom_char(q) {
                Some(n) => q = n,
                None => break,
            }
        }
        Some(q)
    }

    /// atom = { "_"+ | (atom_prefix ~ atom_content) | atom_content }
    fn atom(&self, p: usize) -> R<LT> {
        // "_"+ (non-atomic: whitespace allowed between repetitions)
        if let Some(mut q) = self.lit(p, "_") {
            loop {
                let w = self.ws(q);
                match self.lit(w, "_") {
                    Some(n) => q = n,
                    None => break,
                }
            }
            return Some((q, LT::Atom { prefix: "_".to_string(), name: self.span(p + 1, q).chars().filter(|c| !c.is_whitespace()).collect() }));
        }
        // atom_prefix = @{ punct_sym+ }
        if let Some(mut q) = self.punct_sym(p) {
            while let Some(n) = self.punct_sym(q) {
                q = n;
            }
            let w = self.ws(q);
            if let Some(e) = self.atom_content(w) {
                return Some((e, LT::Atom { prefix: self.span(p, q), name: self.span(w, e) }));
            }
        }
        let e = self.atom_content(p)?;
        Some((e, LT::Atom { prefix: String::new(), name: self.span(p, e) }))
    }

    /// connecter = @{ punct_sym ~ (!"," ~ punct_sym)* }
    fn connecter(&self, p: usize) -> Option<usize> {
        let mut q = self.punct_sym(p)?;
        loop {
            if self.lit(q, ",").is_some() {
                break;
            }
            match self.punct_sym(q) {
                Some(n) => q = n,
                None => break,
            }
        }
        Some(q)
    }

    /// term ~ ("," ~ term)*  (inside a non-atomic rule)
    fn term_list(&self, p: usize) -> R<Vec<LT>> {
        let (mut q, first) = self.term(p)?;
        let mut v = vec![first];
        loop {
            let w = self.ws(q);
            let Some(c) = self.lit(w, ",") else { break };
            let w2 = self.ws(c);
            match self.term(w2) {
                Some((n, t)) => {
                    v.push(t);
                    q = n;
                }
                None => break,
            }
        }
        Some((q, v))
    }

    fn compound(&self, p: usize) -> R<LT> {
        // "(" ~ connecter ~ "," ~ term ~ ("," ~ term)* ~ ")"
        let try_paren = || -> R<LT> {
            let a = self.lit(p, "(")?;
            let a = self.ws(a);
            let c = self.connecter(a)?;
            let conn = self.span(a, c);
            let c = self.ws(c);
            let c = self.lit(c, ",")?;
            let c = self.ws(c);
            let (q, terms) = self.term_list(c)?;
            let q = self.ws(q);
            let e = self.lit(q, ")")?;
            Some((e, LT::Compound { connecter: conn, terms }))
        };
        if let Some(r) = try_paren() {
            return Some(r);
        }
        for (l, r) in [("{", "}"), ("[", "]")] {
            let attempt = || -> R<LT> {
                let a = self.lit(p, l)?;
                let a = self.ws(a);
                let (q, terms) = self.term_list(a)?;
                let q = self.ws(q);
                let e = self.lit(q, r)?;
                Some((e, LT::Set { left: l.to_string(), terms, right: r.to_string() }))
            };
            if let Some(x) = attempt() {
                return Some(x);
            }
        }
        None
    }

    /// statement = { "<" ~ term ~ copula ~ term ~ ">" }
    fn statement(&self, p: usize) -> R<LT> {
        let a = self.lit(p, "<")?;
        let a = self.ws(a);
        let (q, subject) = self.term(a)?;
        let q = self.ws(q);
        let c = self.copula(q)?;
        let cop = self.span(q, c);
        let c = self.ws(c);
        let (q2, predicate) = self.term(c)?;
        let q2 = self.ws(q2);
        let e = self.lit(q2, ">")?;
        Some((e, LT::Statement { copula: cop, subject: Box::new(subject), predicate: Box::new(predicate) }))
    }

    /// term = { statement | compound | atom }
    pub fn term(&self, p: usize) -> R<LT> {
        if let Some(r) = self.statement(p) {
            return Some(r);
        }
        if let Some(r) = self.compound(p) {
            return Some(r);
        }
        self.atom(p)
    }

    /// truth_budget_term = @{ (ASCII_DIGIT | ".")+ }
    fn tbt(&self, p: usize) -> Option<usize> {
        let mut q = p;
        while let Some(c) = self.at(q) {
            if c.is_ascii_digit() || c == '.' {
                q += 1;
            } else {
                break;
            }
        }
        if q > p { Some(q) } else { None }
    }

    /// tbt ~ (";" ~ tbt)* ~ ";"*
    fn number_list(&self, p: usize) -> R<Vec<String>> {
        let mut q = self.tbt(p)?;
        let mut v = vec![self.span(p, q)];
        loop {
            let w = self.ws(q);
            let Some(c) = self.lit(w, ";") else { break };
            let w2 = self.ws(c);
            match self.tbt(w2) {
                Some(n) => {
                    v.push(self.span(w2, n));
                    q = n;
                }
                None => break,
            }
        }
        // ";"*
        loop {
            let w = self.ws(q);
            match self.lit(w, ";") {
                Some(n) => q = n,
                None => break,
            }
        }
        Some((q, v))
    }

    /// budget = { "$" ~ budget_content ~ "$" }
    fn budget(&self, p: usize) -> R<Vec<String>> {
        let a = self.lit(p, "$")?;
        let a1 = self.ws(a);
        if let Some((q, v)) = self.number_list(a1) {
            let q = self.ws(q);
            if let Some(e) = self.lit(q, "$") {
                return Some((e, v));
            }
            // pest: budget_content is a rule of its own; once its first alternative matched
            // there is no re-entry into the "" alternative
            return None;
        }
        let e = self.lit(self.ws(a), "$")?;
        Some((e, vec![]))
    }

    /// truth = { "%" ~ (tbt ~ (";" ~ tbt)* ~ ";"*) ~ "%" }
    fn truth(&self, p: usize) -> R<Vec<String>> {
        let a = self.lit(p, "%")?;
        let a = self.ws(a);
        let (q, v) = self.number_list(a)?;
        let q = self.ws(q);
        let e = self.lit(q, "%")?;
        Some((e, v))
    }

    /// stamp = { ":" ~ (!":" ~ ANY)+ ~ ":" }   (non-atomic: whitespace is skipped between all elements)
    fn stamp(&self, p: usize) -> R<String> {
        let a = self.lit(p, ":")?;
        let mut q = self.ws(a);
        let mut n = 0;
        loop {
            match self.at(q) {
                None | Some(':') => break,
                Some(_) => {
                    q = self.ws(q + 1);
                    n += 1;
                }
            }
        }
        if n == 0 {
            return None;
        }
        let e = self.lit(q, ":")?;
        Some((e, self.span(p, e).chars().filter(|c| !c.is_whitespace()).collect()))
    }

    /// sentence = { term ~ punctuation ~ stamp? ~ truth? }
    fn sentence(&self, p: usize) -> R<LS> {
        let (q, term) = self.term(p)?;
        let q = self.ws(q);
        let e = self.punct_sym(q)?;
        let punct = self.span(q, e);
        let mut end = e;
        let mut stamp = String::new();
        if let Some((n, s)) = self.stamp(self.ws(end)) {
            stamp = s;
            end = n;
        }
        let mut truth = vec![];
        if let Some((n, t)) = self.truth(self.ws(end)) {
            truth = t;
            end = n;
        }
        Some((end, LS { term, punct, stamp, truth }))
    }

    /// narsese = { task | sentence | term }, then the whole input must be consumed
    pub fn narsese(&self) -> Result<LN, String> {
        let finish = |q: usize, v: LN| -> Result<LN, String> {
            let q = self.ws(q);
            if q == self.s.len() {
                Ok(v)
            } else {
                Err(format!("grammar matched a {} but input remains at char {q}: {:?}", match v { LN::Term(_) => "term", LN::Sentence(_) => "sentence", LN::Task { .. } => "task" }, self.span(q, self.s.len())))
            }
        };
        // task = { budget ~ sentence }
        if let Some((q, budget)) = self.budget(0) {
            if let Some((e, s)) = self.sentence(self.ws(q)) {
                return finish(e, LN::Task { budget, s });
            }
        }
        if let Some((e, s)) = self.sentence(0) {
            return finish(e, LN::Sentence(s));
        }
        if let Some((e, t)) = self.term(0) {
            return finish(e, LN::Term(t));
        }
        Err("no alternative of `narsese` matches at the start of the input".to_string())
    }
}

pub fn recognise(text: &str) -> Result<LN, String> {
    Peg::new(text).narsese()
}
