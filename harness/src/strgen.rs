//! String generators for the totality / well-formedness properties (C04, C05, C12):
//! keyword soup, mutations of valid printed values, arbitrary Unicode.
use crate::desc::*;
use crate::fmts;
use crate::gen;
use proptest::collection::vec;
use proptest::prelude::*;
use proptest::sample::select;

pub const MAX_CHARS: usize = 512;
pub const MAX_NEST: usize = 64;

pub fn openers(fi: usize) -> Vec<&'static str> {
    let f = fmts::e(fi);
    vec![f.compound.brackets.0, f.compound.brackets_set_extension.0, f.compound.brackets_set_intension.0, f.statement.brackets.0]
}
pub fn closers(fi: usize) -> Vec<&'static str> {
    let f = fmts::e(fi);
    vec![f.compound.brackets.1, f.compound.brackets_set_extension.1, f.compound.brackets_set_intension.1, f.statement.brackets.1]
}

/// enforce the bounds of C04/C05 by construction: ≤ 512 chars, ≤ 64 opening brackets
/// (so nesting ≤ 64 whatever the closers do)
pub fn clip(fi: usize, s: &str) -> String {
    let chars: Vec<char> = s.chars().take(MAX_CHARS).collect();
    let ops: Vec<Vec<char>> = openers(fi).iter().map(|o| o.chars().collect()).collect();
    let mut opens = 0usize;
    let mut i = 0usize;
    while i < chars.len() {
        let mut hit = 0usize;
        for o in &ops {
            if !o.is_empty() && chars[i..].starts_with(o) {
                hit = hit.max(o.len());
            }
        }
        if hit > 0 {
            opens += 1;
            if opens > MAX_NEST {
                return chars[..i].iter().collect();
            }
            i += hit;
        } else {
            i += 1;
        }
    }
    chars.into_iter().collect()
}

pub fn touches_syntax(fi: usize, s: &str) -> bool {
    fmts::e_keywords(fi).iter().any(|k| *k != " " && s.contains(k))
}

/// surface text of a description, printed through the LEXICAL formatter from a plain
/// (Vec-based) lexical mirror — no enum value is built while GENERATING, so a library slip in
/// hashing / construction cannot stall the generator; it shows up inside the check instead
pub fn text_of(fi: usize, nd: &ND) -> String {
    fmts::l(fi).format_narsese(&crate::lexgen::lex_of_nd(fi, nd, &[]).to_lex())
}

fn small_value_text(fi: usize) -> BoxedStrategy<String> {
    let o = gen::TermOpts { depth: 2, size: 8, deep_max: 0, ..gen::TermOpts::main(fi) };
    gen::narsese(o).prop_map(move |nd| text_of(fi, &nd)).boxed()
}

pub fn value_text(fi: usize) -> BoxedStrategy<String> {
    gen::narsese(gen::TermOpts::main(fi)).prop_map(move |nd| text_of(fi, &nd)).boxed()
}

const NUMBERS: [&str; 30] = [
    "٣", "１２", "½", "²", "0.５", "1\t", ";\t", "、\u{3000}",
    "0", "1", "0.5", "0.9", "1.0", "1.5", "2", "007", ".", "..", "1.2.3", ".5", "5.", "99999999999999999999999999", "0.00000000000000000000000000000000001",
    "-1", "+5", "-", "+", "9223372036854775808", "-9223372036854775809", "18446744073709551616",
];
const SPACES: [&str; 7] = [" ", "  ", "\t", "\n", "\u{3000}", "\u{a0}", "   "];
/// invisible / default-ignorable / combining code points and emoji sequences that carry them:
/// none of them is an identifier character, a blank or a keyword, so each must be refused
/// (or end a token) cleanly wherever it stands
pub const INVISIBLE: [&str; 26] = [
    "\u{fe0f}", "\u{fe0e}", "\u{200d}", "\u{200b}", "\u{200c}", "\u{2060}", "\u{feff}", "\u{ad}", "\u{34f}", "\u{61c}", "\u{180e}", "\u{301}", "\u{20e3}",
    "\u{2028}", "\u{85}", "\u{1f}", "\u{7f}", "\u{202e}", "\u{e0001}", "\u{e0100}",
    "🏗\u{fe0f}", "♻\u{fe0f}", "1\u{fe0f}\u{20e3}", "👨\u{200d}👩\u{200d}👧", "e\u{301}", "\u{3164}",
];
const STRAY: [&str; 16] = ["(", ")", "<", ">", "{", "}", "[", "]", "\\", "/", "|", "-", "=", "_", "`", "@"];

fn piece(fi: usize) -> BoxedStrategy<String> {
    let kws: Vec<&'static str> = fmts::e_keywords(fi);
    let ops = openers(fi);
    let cls = closers(fi);
    prop_oneof![
        48 => select(kws).prop_map(|s| s.to_string()),
        14 => gen::name(fi, gen::NameProfile::Main),
        9 => select(NUMBERS.to_vec()).prop_map(|s| s.to_string()),
        3 => gen::edge_numeral(),
        7 => select(SPACES.to_vec()).prop_map(|s| s.to_string()),
        4 => select(STRAY.to_vec()).prop_map(|s| s.to_string()),
        4 => select(INVISIBLE.to_vec()).prop_map(|s| s.to_string()),
        4 => (select(ops), 1usize..=64).prop_map(|(o, n)| o.repeat(n)),
        2 => (select(cls), 1usize..=8).prop_map(|(o, n)| o.repeat(n)),
        6 => small_value_text(fi),
        3 => any::<char>().prop_map(|c| c.to_string()),
        // overlong names / numbers (still within 512 chars after clipping)
        2 => (gen::name_char(fi, gen::NameProfile::Main), 40usize..500).prop_map(|(c, n)| c.to_string().repeat(n)),
        1 => (select(vec!["1.", "0", "9", ".", "é", "１"]), 40usize..300).prop_map(|(c, n)| c.repeat(n)),
    ]
    .boxed()
}

pub fn soup(fi: usize) -> BoxedStrategy<String> {
    vec(piece(fi), 1..40).prop_map(move |v| clip(fi, &v.concat())).boxed()
}

#[derive(Clone, Debug)]
enum Mutation {
    Delete(u16),
    Duplicate(u16),
    Swap(u16),
    Truncate(u16),
    Insert(u16, String),
    DropClosers,
    Replace(u16, String),
    /// overwrite the n-th numeral (maximal run of ASCII digits and dots) with a boundary numeral
    Numeral(u16, String),
}

fn mutation(fi: usize) -> BoxedStrategy<Mutation> {
    prop_oneof![
        20 => any::<u16>().prop_map(Mutation::Delete),
        10 => any::<u16>().prop_map(Mutation::Duplicate),
        10 => any::<u16>().prop_map(Mutation::Swap),
        15 => any::<u16>().prop_map(Mutation::Truncate),
        25 => (any::<u16>(), piece(fi)).prop_map(|(p, s)| Mutation::Insert(p, s)),
        5 => Just(Mutation::DropClosers),
        15 => (any::<u16>(), piece(fi)).prop_map(|(p, s)| Mutation::Replace(p, s)),
        8 => (any::<u16>(), gen::edge_numeral()).prop_map(|(p, s)| Mutation::Numeral(p, s)),
    ]
    .boxed()
}

fn pos(frac: u16, len: usize) -> usize {
    ((frac as usize) * (len + 1)) >> 16
}

fn apply(fi: usize, s: &str, m: &Mutation) -> String {
    let mut c: Vec<char> = s.chars().collect();
    match m {
        Mutation::Numeral(p, text) => {
            let is_num = |ch: char| ch.is_ascii_digit() || ch == '.';
            let mut runs: Vec<(usize, usize)> = vec![];
            let mut i = 0;
            while i < c.len() {
                if c[i].is_ascii_digit() {
                    let mut j = i;
                    while j < c.len() && is_num(c[j]) {
                        j += 1;
                    }
                    runs.push((i, j));
                    i = j;
                } else {
                    i += 1;
                }
            }
            if !runs.is_empty() {
                let (a, b) = runs[pos(*p, runs.len() - 1)];
                c.splice(a..b, text.chars());
            }
        }
        Mutation::Delete(p) => {
            if !c.is_empty() {
                let i = pos(*p, c.len() - 1);
                c.remove(i);
            }
        }
        Mutation::Duplicate(p) => {
            if !c.is_empty() {
                let i = pos(*p, c.len() - 1);
                let ch = c[i];
                c.insert(i, ch);
            }
        }
        Mutation::Swap(p) => {
            if c.len() >= 2 {
                let i = pos(*p, c.len() - 2);
                c.swap(i, i + 1);
            }
        }
        Mutation::Truncate(p) => {
            let i = pos(*p, c.len());
            c.truncate(i);
        }
        Mutation::Insert(p, piece) => {
            let i = pos(*p, c.len());
            let tail: Vec<char> = c.split_off(i);
            c.extend(piece.chars());
            c.extend(tail);
        }
        Mutation::Replace(p, piece) => {
            if !c.is_empty() {
                let i = pos(*p, c.len() - 1);
                let tail: Vec<char> = c.split_off(i + 1);
                c.pop();
                c.extend(piece.chars());
                c.extend(tail);
            }
        }
        Mutation::DropClosers => {
            let mut t: String = c.iter().collect();
            for cl in closers(fi) {
                t = t.replace(cl, "");
            }
            return t;
        }
    }
    c.into_iter().collect()
}

pub fn mutated(fi: usize) -> BoxedStrategy<String> {
    (value_text(fi), vec(mutation(fi), 1..=4))
        .prop_map(move |(s, ms)| {
            let mut cur = s;
            for m in &ms {
                cur = apply(fi, &cur, m);
            }
            clip(fi, &cur)
        })
        .boxed()
}

/// deep unterminated / unbalanced nests around a valid value (reaches the cursor-overshoot states)
pub fn nests(fi: usize) -> BoxedStrategy<String> {
    let ops = openers(fi);
    let f = fmts::e(fi);
    let conn: Vec<&'static str> = vec![f.compound.connecter_product, f.compound.connecter_negation, f.compound.connecter_conjunction, f.compound.connecter_image_extension, ""];
    (vec((select(ops), select(conn), 1usize..=20), 1..=6), small_value_text(fi), vec(select(closers(fi)), 0..=6))
        .prop_map(move |(layers, inner, tail)| {
            let mut s = String::new();
            for (o, c, n) in layers {
                for _ in 0..n {
                    s.push_str(o);
                    if o == fmts::e(fi).compound.brackets.0 && !c.is_empty() {
                        s.push_str(c);
                        s.push_str(fmts::e(fi).compound.separator);
                    }
                }
            }
            s.push_str(&inner);
            for t in tail {
                s.push_str(t);
            }
            clip(fi, &s)
        })
        .boxed()
}

pub fn unicode(fi: usize) -> BoxedStrategy<String> {
    let small: Vec<char> = "<>(){}[]$%:;,.!?@#^+-_*/\\|&~= \t\n0123456789aAbz是得同为有将现曾具预算真值、，。「」『』【】（）".chars().collect();
    let pieces: Vec<String> = small.iter().map(|c| c.to_string()).chain(INVISIBLE.iter().map(|s| s.to_string())).collect();
    prop_oneof![
        40 => vec(select(small), 0..80).prop_map(|v| v.into_iter().collect::<String>()),
        20 => vec(select(pieces), 0..60).prop_map(|v| v.concat()),
        40 => "\\PC{0,60}",
    ]
    .prop_map(move |s| clip(fi, &s))
    .boxed()
}

/// all string sources, tagged with their class name
pub fn any_string(fi: usize) -> BoxedStrategy<(String, String)> {
    prop_oneof![
        40 => soup(fi).prop_map(|s| ("soup".to_string(), s)),
        30 => mutated(fi).prop_map(|s| ("mutated".to_string(), s)),
        12 => nests(fi).prop_map(|s| ("nests".to_string(), s)),
        10 => unicode(fi).prop_map(|s| ("unicode".to_string(), s)),
        8 => value_text(fi).prop_map(move |s| ("valid".to_string(), clip(fi, &s))),
    ]
    .boxed()
}

// ---------------------------------------------------------------------------------------
// bounded-exhaustive token sequences (small-scope hypothesis for the parsers)

/// token alphabet of a format by syntactic role; `core` = the 16 most structural tokens
pub fn token_alphabet(fi: usize, core: bool) -> Vec<String> {
    let f = fmts::e(fi);
    let stamp = format!("{}{}{}", f.sentence.stamp_brackets.0, f.sentence.stamp_present, f.sentence.stamp_brackets.1);
    let mut v: Vec<String> = vec![
        f.statement.brackets.0.into(),
        f.statement.brackets.1.into(),
        f.statement.copula_inheritance.into(),
        f.compound.brackets.0.into(),
        f.compound.brackets.1.into(),
        f.compound.separator.into(),
        f.compound.connecter_product.into(),
        f.compound.connecter_image_extension.into(),
        f.atom.prefix_placeholder.into(),
        f.compound.brackets_set_extension.0.into(),
        f.compound.brackets_set_extension.1.into(),
        "A".into(),
        f.atom.prefix_variable_independent.into(),
        f.task.budget_brackets.0.into(),
        f.sentence.punctuation_judgement.into(),
        f.sentence.truth_brackets.0.into(),
    ];
    if !core {
        v.extend([
            f.statement.copula_instance.to_string(),
            f.statement.copula_equivalence_concurrent.to_string(),
            f.compound.connecter_negation.to_string(),
            f.compound.connecter_conjunction.to_string(),
            "1".to_string(),
            "0.5".to_string(),
            f.sentence.punctuation_question.to_string(),
            f.sentence.truth_brackets.1.to_string(),
            f.sentence.truth_separator.to_string(),
            f.task.budget_brackets.1.to_string(),
            stamp,
            f.sentence.stamp_fixed.to_string(),
            f.atom.prefix_interval.to_string(),
            " ".to_string(),
            "\u{fe0f}".to_string(),
        ]);
    }
    v.sort();
    v.dedup();
    v
}

/// every concatenation of 1..=max_len tokens (format tag included)
pub fn token_sequences(fi: usize, core: bool, max_len: usize) -> Box<dyn Iterator<Item = (usize, String)>> {
    let alpha = token_alphabet(fi, core);
    let n = alpha.len();
    let mut total: usize = 0;
    let mut p = 1usize;
    for _ in 0..max_len {
        p *= n;
        total += p;
    }
    Box::new((0..total).map(move |mut idx| {
        // decode idx into (length, digits)
        let mut len = 1usize;
        let mut block = n;
        while idx >= block {
            idx -= block;
            block *= n;
            len += 1;
        }
        let mut s = String::new();
        let mut digits = vec![0usize; len];
        for d in digits.iter_mut().rev() {
            *d = idx % n;
            idx /= n;
        }
        for d in digits {
            s.push_str(&alpha[d]);
        }
        (fi, s)
    }))
}

/// the enumeration used by the totality / well-formedness checks: full alphabet to length 3
/// (thorough: 4), core alphabet to length 4 (thorough: 5), all three formats
pub fn token_space(thorough: bool) -> Box<dyn Iterator<Item = (usize, String)>> {
    let (full_len, core_len) = if thorough { (4, 5) } else { (3, 4) };
    Box::new((0..3usize).flat_map(move |fi| token_sequences(fi, false, full_len).chain(token_sequences(fi, true, core_len))))
}
