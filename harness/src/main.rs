mod desc;
mod engine;
mod fmts;
mod gen;
mod lexgen;
mod peg;
mod pipes;
mod plan;
mod printer;
mod props;
mod strgen;
mod wf;

use engine::*;
use std::path::PathBuf;

fn registry() -> Vec<&'static Prop> {
    vec![&props::c01::PROP, &props::c02::PROP, &props::c05::PROP, &props::c12::PROP, &props::c13::PROP, &props::c14::PROP, &props::c15::PROP, &props::c16::PROP, &props::c17::PROP, &props::c03::PROP, &props::c09::PROP, &props::c10::PROP, &props::c11::PROP, &props::c04::PROP, &props::c06::PROP, &props::c07::PROP, &props::c08::PROP]
}

fn main() {
    let args: Vec<String> = std::env::args().collect();
    if args.len() < 3 {
        eprintln!("usage: nvh <ID> quick|thorough [--stream NAME] | nvh <ID> --replay <file>");
        std::process::exit(2);
    }
    install_panic_hook();
    let root = std::env::var("VERIF_ROOT").map(PathBuf::from).unwrap_or_else(|_| PathBuf::from("/verif"));
    let id = args[1].as_str();
    let Some(prop) = registry().into_iter().find(|p| p.id == id) else {
        eprintln!("unknown property {id}");
        std::process::exit(2);
    };
    if args[2] == "--replay" {
        let code = replay_file(prop, root, &args[3]);
        std::process::exit(code);
    }
    let tier = match args[2].as_str() {
        "quick" => Tier::Quick,
        "thorough" => Tier::Thorough,
        other => {
            eprintln!("unknown tier {other}");
            std::process::exit(2);
        }
    };
    let seed = std::env::var("VERIF_SEED").ok().and_then(|s| s.parse::<i64>().ok()).unwrap_or(0) as u64;
    let only = args.iter().position(|a| a == "--stream").and_then(|i| args.get(i + 1)).map(|s| s.as_str());
    let code = run_property(prop, tier, seed, root, only);
    println!("DONE property={id} tier={} seed={seed} exit={code}", tier.name());
    std::process::exit(code);
}
