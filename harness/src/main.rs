
use nvh::engine::*;
use nvh::props;
use std::path::PathBuf;

fn registry() -> Vec<&'static Prop> {
    vec![&props::c01::PROP, &props::c02::PROP, &props::c05::PROP, &props::c12::PROP, &props::c13::PROP, &props::c14::PROP, &props::c15::PROP, &props::c16::PROP, &props::c17::PROP, &props::c03::PROP, &props::c09::PROP, &props::c10::PROP, &props::c11::PROP, &props::c04::PROP, &props::c06::PROP, &props::c07::PROP, &props::c08::PROP]
}

fn main() {
    let args: Vec<String> = std::env::args().collect();
    if args.len() < 3 {
        eprintln!("usage: nvh <ID> quick|thorough [--stream NAME] | nvh <ID> --replay <file>");
        std::process::exit(2);
    }
    if args[1] == "corpus" {
        // nvh corpus <dir> <n>: deterministic seed corpus for the fuzz targets (valid + mutated texts)
        let dir = PathBuf::from(&args[2]);
        let n: usize = args.get(3).and_then(|s| s.parse().ok()).unwrap_or(200);
        std::fs::create_dir_all(&dir).unwrap();
        let mut k = 0;
        for fi in 0..3usize {
            let strat = nvh::strgen::any_string(fi);
            for (_, s) in draw(&strat, 7 + fi as u64, n) {
                let mut bytes = vec![fi as u8, 0x55, 0xaa];
                bytes.extend(s.as_bytes());
                std::fs::write(dir.join(format!("gen-{k:05}")), bytes).unwrap();
                k += 1;
            }
        }
        println!("wrote {k} corpus files to {}", dir.display());
        return;
    }
    if args[1] == "names" {
        // nvh names: show what the name generators produce (development aid)
        println!("han fragment names: {:?}", nvh::gen::han_fragment_names());
        println!("prelude samples accepted (format, sample, enum, lexical): {:?}", nvh::prelude::self_check());
        use proptest::strategy::{Strategy, ValueTree};
        let mut runner = proptest::test_runner::TestRunner::deterministic();
        for fi in 0..3usize {
            let st = nvh::gen::name(fi, nvh::gen::NameProfile::Main);
            let v: Vec<String> = (0..60).map(|_| st.new_tree(&mut runner).unwrap().current()).collect();
            println!("{}: {:?}", nvh::fmts::FMT_NAMES[fi], v);
        }
        return;
    }
    if args[1] == "dict" {
        // nvh dict <file>: libFuzzer dictionary with every keyword of the three formats
        let mut lines: Vec<String> = vec![];
        for fi in 0..3usize {
            for k in nvh::fmts::e_keywords(fi) {
                let mut e = String::new();
                for b in k.bytes() {
                    if (0x20..0x7f).contains(&b) && b != b'"' && b != b'\\' {
                        e.push(b as char);
                    } else {
                        e.push_str(&format!("\\x{b:02x}"));
                    }
                }
                lines.push(format!("\"{e}\""));
            }
        }
        lines.sort();
        lines.dedup();
        std::fs::write(&args[2], lines.join("\n") + "\n").unwrap();
        println!("wrote {} dictionary entries to {}", lines.len(), args[2]);
        return;
    }
    install_panic_hook();
    if args[1] == "fuzz-artifact" {
        // nvh fuzz-artifact <target> <file>: decode a libFuzzer artifact, confirm it with the
        // catch_unwind-based oracle and turn it into a replay file + VIOLATION line
        let data = std::fs::read(&args[3]).unwrap_or_default();
        let root = std::env::var("VERIF_ROOT").map(PathBuf::from).unwrap_or_else(|_| PathBuf::from("/verif"));
        let Some(d) = nvh::fuzzglue::decode(&data) else {
            println!("artifact too short to decode");
            std::process::exit(2);
        };
        let mut code = 0;
        for (id, stream, case, r) in nvh::fuzzglue::oracle(&args[2], &d) {
            if let Err(f) = r {
                let sh = Shared::new(Box::leak(id.to_string().into_boxed_str()), Tier::Thorough, 0, root.clone());
                sh.report_violation(stream, &case, &f);
                code = 1;
            }
        }
        if code == 0 {
            println!("artifact {} does not fail the oracle in isolation (input {:?})", args[3], d.s);
            code = 2;
        }
        std::process::exit(code);
    }
    let root = std::env::var("VERIF_ROOT").map(PathBuf::from).unwrap_or_else(|_| PathBuf::from("/verif"));
    let id = args[1].as_str();
    let Some(prop) = registry().into_iter().find(|p| p.id == id) else {
        eprintln!("unknown property {id}");
        std::process::exit(2);
    };
    if args[2] == "--replay" {
        limit_memory(8);
        // same stack as the worker threads of a run (very deep values must not overflow here)
        let path = args[3].clone();
        let code = std::thread::Builder::new().stack_size(512 << 20).spawn(move || replay_file(prop, root, &path)).unwrap().join().unwrap_or(2);
        std::process::exit(code);
    }
    let tier = match args[2].as_str() {
        "quick" => Tier::Quick,
        "thorough" => Tier::Thorough,
        other => {
            eprintln!("unknown tier {other}");
            std::process::exit(2);
        }
    };
    nvh::crash::install(&root.join("replays").join("found"));
    limit_memory(40);
    let seed = std::env::var("VERIF_SEED").ok().and_then(|s| s.parse::<i64>().ok()).unwrap_or(0) as u64;
    let only = args.iter().position(|a| a == "--stream").and_then(|i| args.get(i + 1)).map(|s| s.as_str());
    let code = run_property(prop, tier, seed, root, only);
    println!("DONE property={id} tier={} seed={seed} exit={code}", tier.name());
    std::process::exit(code);
}
