use serde::{Serialize, Deserialize};
#[derive(Serialize, Deserialize, Debug)]
struct X { a: u32 }
fn main(){ println!("{}", serde_json::to_string(&X{a:1}).unwrap()); }
