//! Calling contexts. What a call returns may depend on its arguments only — not on whether the
//! calling thread is unwinding from a panic, or is already shutting down and running the
//! destructors of its thread-local values. Both are ordinary places for a program to parse or
//! validate (a guard that logs in `Drop`, a thread-local cache that is flushed at thread exit).
//! Each context is set up on a fresh thread; the closure's result is carried out of it.
use std::cell::RefCell;
use std::sync::{Arc, Mutex};

#[derive(Clone, Copy, Debug, PartialEq, Eq)]
pub enum Ctx {
    /// inside `Drop::drop` of a guard while the thread unwinds from a panic
    UnwindingDrop,
    /// inside the destructor of a thread-local value registered BEFORE the thread's first call
    TlsDtorRegisteredFirst,
    /// inside the destructor of a thread-local value registered AFTER the thread's first call
    TlsDtorRegisteredLast,
}
/// the contexts the checks use. `TlsDtorRegisteredFirst` is deliberately NOT among them: there the
/// callee's own thread-local values have already been destroyed, and std documents that
/// `LocalKey::with` may panic then — a library that keeps a per-thread buffer the ordinary way
/// would be reported although it satisfies its properties (see DESIGN.md §6, domain decisions).
pub const ALL: [Ctx; 2] = [Ctx::UnwindingDrop, Ctx::TlsDtorRegisteredLast];

struct RunOnDrop(Option<Box<dyn FnOnce() + Send>>);
impl Drop for RunOnDrop {
    fn drop(&mut self) {
        if let Some(f) = self.0.take() {
            f();
        }
    }
}

thread_local! {
    static AT_EXIT: RefCell<Option<RunOnDrop>> = const { RefCell::new(None) };
}

/// run `call` once normally (`warm`: lets the callee set up whatever per-thread state it keeps)
/// and then again inside the context; returns the second result. `call` must catch its own
/// panics (use `engine::guard`) and must be callable twice. Ok(None) = the context thread died
/// without delivering a result; Err(()) = the thread could not be started at all (resource
/// exhaustion on the machine: the caller skips the context, that is no verdict).
pub fn run_in<R: Send + 'static>(ctx: Ctx, call: impl Fn() -> R + Send + Sync + 'static) -> Result<Option<R>, ()> {
    let out: Arc<Mutex<Option<R>>> = Arc::new(Mutex::new(None));
    let out2 = out.clone();
    let call = Arc::new(call);
    let h = std::thread::Builder::new().stack_size(64 << 20).spawn(move || {
        let deferred = {
            let call = call.clone();
            move || {
                let r = call();
                *out2.lock().unwrap() = Some(r);
            }
        };
        match ctx {
            Ctx::UnwindingDrop => {
                let _ = call();
                let _ = std::panic::catch_unwind(std::panic::AssertUnwindSafe(move || {
                    let _g = RunOnDrop(Some(Box::new(deferred)));
                    std::panic::resume_unwind(Box::new("context: unwinding"));
                }));
            }
            Ctx::TlsDtorRegisteredFirst => {
                AT_EXIT.with(|c| *c.borrow_mut() = Some(RunOnDrop(Some(Box::new(deferred)))));
                let _ = call();
            }
            Ctx::TlsDtorRegisteredLast => {
                let _ = call();
                AT_EXIT.with(|c| *c.borrow_mut() = Some(RunOnDrop(Some(Box::new(deferred)))));
            }
        }
    });
    let Ok(h) = h else { return Err(()) };
    let _ = h.join();
    let r = out.lock().unwrap().take();
    Ok(r)
}
