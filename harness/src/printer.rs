//! Value-driven token printer: prints a real enum value as the token sequence of a format,
//! reading every keyword from the library's own table. Styles: plain (must reproduce the
//! formatter modulo spaces — the sanity gate) or sugar (derived copulas, retrospective
//! equivalence, zero-padded intervals, decorated placeholders).
use crate::fmts;
use crate::plan::Tape;
use narsese::api::{GetBudget, GetPunctuation, GetStamp, GetTerm, GetTruth};
use narsese::enum_narsese::{Budget, ImageIterator, Narsese, Punctuation, Sentence, Stamp, Task, Term, Truth};

#[derive(Clone, Copy, Debug, PartialEq, Eq)]
pub enum TK {
    Open,
    Close,
    Connecter,
    Sep,
    Atom,
    Copula,
    Punct,
    StampBr,
    StampMark,
    Int,
    Num,
    TruthBr,
    TruthSep,
    BudgetBr,
    BudgetSep,
}

#[derive(Clone, Debug)]
pub struct Token {
    pub text: String,
    pub kind: TK,
    /// spacing the formatter's templates put before this token: 0 none, 1 `format_terms`, 2 `format_items`
    pub gap: u8,
}

#[derive(Clone, Copy, Debug, PartialEq, Eq)]
pub enum Style {
    Plain,
    /// every applicable sugar is applied when the tape says so (3 times out of 4)
    Sugar,
    /// every applicable sugar is applied
    SugarAlways,
}

pub struct Printer<'a> {
    pub fi: usize,
    pub style: Style,
    pub tape: Tape<'a>,
    pub out: Vec<Token>,
    /// which sugars were actually used (for classification)
    pub used: Vec<&'static str>,
    pending_gap: u8,
}

impl<'a> Printer<'a> {
    pub fn new(fi: usize, style: Style, tape: &'a [u8]) -> Printer<'a> {
        Printer { fi, style, tape: Tape::new(tape, 0), out: vec![], used: vec![], pending_gap: 0 }
    }
    fn push(&mut self, text: &str, kind: TK) {
        if !text.is_empty() {
            let gap = if self.out.is_empty() { 0 } else { self.pending_gap };
            self.out.push(Token { text: text.to_string(), kind, gap });
            self.pending_gap = 0;
        }
    }
    /// spacing (0 none / 1 format_terms / 2 format_items) before the next pushed token
    pub fn gap(&mut self, g: u8) {
        self.pending_gap = g;
    }
    fn sugar(&mut self) -> bool {
        match self.style {
            Style::Plain => false,
            Style::SugarAlways => true,
            // in sugar style a sugar is applied 3 times out of 4
            Style::Sugar => self.tape.next() % 4 != 0,
        }
    }

    pub fn term(&mut self, t: &Term) {
        use Term as T;
        let f = fmts::e(self.fi);
        match t {
            T::Word(n) => self.push(&format!("{}{}", f.atom.prefix_word, n), TK::Atom),
            T::VariableIndependent(n) => self.push(&format!("{}{}", f.atom.prefix_variable_independent, n), TK::Atom),
            T::VariableDependent(n) => self.push(&format!("{}{}", f.atom.prefix_variable_dependent, n), TK::Atom),
            T::VariableQuery(n) => self.push(&format!("{}{}", f.atom.prefix_variable_query, n), TK::Atom),
            T::Operator(n) => self.push(&format!("{}{}", f.atom.prefix_operator, n), TK::Atom),
            T::Interval(n) => {
                let mut digits = n.to_string();
                if self.sugar() {
                    // leading zeros: mostly 0..=6, sometimes up to ≈ 320 (0 = the plain numeral: its own length classes must
                    // not disappear behind the padding)
                    let pad = match (self.tape.next() as usize) % 16 {
                        p @ 0..=6 => p,
                        7..=12 => 1 + (self.tape.next() as usize) % 6,
                        // long paddings: the numeral's length passes every plausible buffer size
                        13 | 14 => 7 + (self.tape.next() as usize) % 60,
                        _ => 67 + (self.tape.next() as usize),
                    };
                    if pad > 0 {
                        digits = format!("{}{}", "0".repeat(pad), digits);
                        self.used.push("interval-padded");
                    }
                }
                self.push(&format!("{}{}", f.atom.prefix_interval, digits), TK::Atom)
            }
            T::Placeholder => {
                let mut text = f.atom.prefix_placeholder.to_string();
                if self.sugar() {
                    let tails = ["x", "1", "abc", "_", "0_0"];
                    text.push_str(tails[(self.tape.next() as usize) % tails.len()]);
                    self.used.push("placeholder-decorated");
                }
                self.push(&text, TK::Atom)
            }
            T::SetExtension(..) => self.set(t, f.compound.brackets_set_extension),
            T::SetIntension(..) => self.set(t, f.compound.brackets_set_intension),
            T::IntersectionExtension(..) => self.compound(t.get_components(), f.compound.connecter_intersection_extension),
            T::IntersectionIntension(..) => self.compound(t.get_components(), f.compound.connecter_intersection_intension),
            T::DifferenceExtension(..) => self.compound(t.get_components(), f.compound.connecter_difference_extension),
            T::DifferenceIntension(..) => self.compound(t.get_components(), f.compound.connecter_difference_intension),
            T::Product(..) => self.compound(t.get_components(), f.compound.connecter_product),
            T::ImageExtension(i, v) => {
                let comps: Vec<&Term> = ImageIterator::new(v.iter(), *i).collect();
                self.compound_with_image_placeholder(comps, *i, f.compound.connecter_image_extension)
            }
            T::ImageIntension(i, v) => {
                let comps: Vec<&Term> = ImageIterator::new(v.iter(), *i).collect();
                self.compound_with_image_placeholder(comps, *i, f.compound.connecter_image_intension)
            }
            T::Conjunction(..) => self.compound(t.get_components(), f.compound.connecter_conjunction),
            T::Disjunction(..) => self.compound(t.get_components(), f.compound.connecter_disjunction),
            T::Negation(..) => self.compound(t.get_components(), f.compound.connecter_negation),
            T::ConjunctionSequential(..) => self.compound(t.get_components(), f.compound.connecter_conjunction_sequential),
            T::ConjunctionParallel(..) => self.compound(t.get_components(), f.compound.connecter_conjunction_parallel),
            T::Inheritance(s, p) => {
                let single = |x: &'_ Term| -> bool { x.get_components().len() == 1 };
                let s_inst = matches!(s.as_ref(), T::SetExtension(..)) && single(s);
                let p_prop = matches!(p.as_ref(), T::SetIntension(..)) && single(p);
                if s_inst && p_prop && self.sugar() {
                    self.used.push("instance-property");
                    let (a, b) = (s.get_components()[0].clone(), p.get_components()[0].clone());
                    self.statement(&a, f.statement.copula_instance_property, &b)
                } else if s_inst && self.sugar() {
                    self.used.push("instance");
                    let a = s.get_components()[0].clone();
                    self.statement(&a, f.statement.copula_instance, p)
                } else if p_prop && self.sugar() {
                    self.used.push("property");
                    let b = p.get_components()[0].clone();
                    self.statement(s, f.statement.copula_property, &b)
                } else {
                    self.statement(s, f.statement.copula_inheritance, p)
                }
            }
            T::Similarity(s, p) => self.statement(s, f.statement.copula_similarity, p),
            T::Implication(s, p) => self.statement(s, f.statement.copula_implication, p),
            T::Equivalence(s, p) => self.statement(s, f.statement.copula_equivalence, p),
            T::ImplicationPredictive(s, p) => self.statement(s, f.statement.copula_implication_predictive, p),
            T::ImplicationConcurrent(s, p) => self.statement(s, f.statement.copula_implication_concurrent, p),
            T::ImplicationRetrospective(s, p) => self.statement(s, f.statement.copula_implication_retrospective, p),
            T::EquivalencePredictive(s, p) => {
                if self.sugar() {
                    self.used.push("equivalence-retrospective");
                    self.statement(p, f.statement.copula_equivalence_retrospective, s)
                } else {
                    self.statement(s, f.statement.copula_equivalence_predictive, p)
                }
            }
            T::EquivalenceConcurrent(s, p) => self.statement(s, f.statement.copula_equivalence_concurrent, p),
        }
    }

    fn set(&mut self, t: &Term, br: (&str, &str)) {
        let sep = fmts::e(self.fi).compound.separator;
        self.push(br.0, TK::Open);
        for (i, c) in t.get_components().into_iter().enumerate() {
            if i > 0 {
                self.push(sep, TK::Sep);
                self.pending_gap = 1;
            }
            self.term(c);
        }
        self.push(br.1, TK::Close);
    }

    fn compound(&mut self, comps: Vec<&Term>, connecter: &str) {
        let f = fmts::e(self.fi);
        self.push(f.compound.brackets.0, TK::Open);
        self.push(connecter, TK::Connecter);
        for c in comps {
            self.push(f.compound.separator, TK::Sep);
            self.pending_gap = 1;
            self.term(c);
        }
        self.push(f.compound.brackets.1, TK::Close);
    }

    /// like `compound`, but the image's own placeholder (position `idx`) is always printed bare
    fn compound_with_image_placeholder(&mut self, comps: Vec<&Term>, idx: usize, connecter: &str) {
        let f = fmts::e(self.fi);
        self.push(f.compound.brackets.0, TK::Open);
        self.push(connecter, TK::Connecter);
        for (i, c) in comps.into_iter().enumerate() {
            self.push(f.compound.separator, TK::Sep);
            self.pending_gap = 1;
            if i == idx {
                // decorate through the normal path as well: whatever follows the prefix is ignored
                self.term(c);
            } else {
                self.term(c);
            }
        }
        self.push(f.compound.brackets.1, TK::Close);
    }

    fn statement(&mut self, s: &Term, copula: &str, p: &Term) {
        let f = fmts::e(self.fi);
        self.push(f.statement.brackets.0, TK::Open);
        self.term(s);
        self.pending_gap = 1;
        self.push(copula, TK::Copula);
        self.pending_gap = 1;
        self.term(p);
        self.push(f.statement.brackets.1, TK::Close);
    }

    pub fn punct(&mut self, p: &Punctuation) {
        let f = fmts::e(self.fi);
        let s = match p {
            Punctuation::Judgement => f.sentence.punctuation_judgement,
            Punctuation::Goal => f.sentence.punctuation_goal,
            Punctuation::Question => f.sentence.punctuation_question,
            Punctuation::Quest => f.sentence.punctuation_quest,
        };
        self.push(s, TK::Punct);
    }

    pub fn stamp(&mut self, s: &Stamp) {
        let f = fmts::e(self.fi);
        if let Stamp::Eternal = s {
            return;
        }
        self.push(f.sentence.stamp_brackets.0, TK::StampBr);
        match s {
            Stamp::Past => self.push(f.sentence.stamp_past, TK::StampMark),
            Stamp::Present => self.push(f.sentence.stamp_present, TK::StampMark),
            Stamp::Future => self.push(f.sentence.stamp_future, TK::StampMark),
            Stamp::Fixed(t) => {
                self.push(f.sentence.stamp_fixed, TK::StampMark);
                self.push(&t.to_string(), TK::Int);
            }
            Stamp::Eternal => {}
        }
        self.push(f.sentence.stamp_brackets.1, TK::StampBr);
    }

    fn floats(&mut self, br: (&str, &str), sep: &str, v: &[f64], kb: TK, ks: TK) {
        self.push(br.0, kb);
        for (i, x) in v.iter().enumerate() {
            if i > 0 {
                self.push(sep, ks);
            }
            self.push(&x.to_string(), TK::Num);
        }
        self.push(br.1, kb);
    }

    pub fn truth(&mut self, t: &Truth) {
        let f = fmts::e(self.fi);
        let v: Vec<f64> = match t {
            Truth::Empty => return,
            Truth::Single(a) => vec![*a],
            Truth::Double(a, b) => vec![*a, *b],
        };
        self.floats(f.sentence.truth_brackets, f.sentence.truth_separator, &v, TK::TruthBr, TK::TruthSep);
    }

    pub fn budget(&mut self, b: &Budget) {
        let f = fmts::e(self.fi);
        let v: Vec<f64> = match b {
            Budget::Empty => vec![],
            Budget::Single(a) => vec![*a],
            Budget::Double(a, b) => vec![*a, *b],
            Budget::Triple(a, b, c) => vec![*a, *b, *c],
        };
        self.floats(f.task.budget_brackets, f.task.budget_separator, &v, TK::BudgetBr, TK::BudgetSep);
    }

    pub fn sentence(&mut self, s: &Sentence) {
        self.term(s.get_term());
        self.punct(s.get_punctuation());
        self.pending_gap = 1;
        self.stamp(s.get_stamp());
        if let Some(t) = s.get_truth() {
            self.pending_gap = 1;
            self.truth(t);
        }
        self.pending_gap = 0;
    }

    pub fn task(&mut self, t: &Task) {
        self.budget(t.get_budget());
        self.pending_gap = 2;
        self.sentence(t.get_sentence());
    }

    pub fn narsese(&mut self, v: &Narsese) {
        match v {
            Narsese::Term(t) => self.term(t),
            Narsese::Sentence(s) => self.sentence(s),
            Narsese::Task(t) => self.task(t),
        }
    }
}

pub fn tokens(fi: usize, v: &Narsese, style: Style, tape: &[u8]) -> (Vec<Token>, Vec<&'static str>) {
    let mut p = Printer::new(fi, style, tape);
    p.narsese(v);
    (p.out, p.used)
}

pub fn concat(tokens: &[Token]) -> String {
    tokens.iter().map(|t| t.text.as_str()).collect()
}

/// join with `gaps[i]` copies of `fill` before token i (gaps.len() == tokens.len()+1)
pub fn join_with(tokens: &[Token], gaps: &[String]) -> String {
    let mut s = String::new();
    for (i, t) in tokens.iter().enumerate() {
        s.push_str(gaps.get(i).map(|g| g.as_str()).unwrap_or(""));
        s.push_str(&t.text);
    }
    s.push_str(gaps.get(tokens.len()).map(|g| g.as_str()).unwrap_or(""));
    s
}

/// the spacing the formatter's templates use (gate2 verifies it against the real formatter)
pub fn formatter_gaps(fi: usize, tokens: &[Token]) -> Vec<String> {
    let f = fmts::e(fi);
    let mut g: Vec<String> = tokens
        .iter()
        .map(|t| match t.gap {
            1 => f.space.format_terms.to_string(),
            2 => f.space.format_items.to_string(),
            _ => String::new(),
        })
        .collect();
    g.push(String::new());
    g
}

pub fn render(fi: usize, tokens: &[Token]) -> String {
    join_with(tokens, &formatter_gaps(fi, tokens))
}

/// sanity gate 2: plain tokens rendered with the template spacing equal the formatter's output exactly
pub fn gate_exact(fi: usize, v: &Narsese) -> bool {
    let (toks, _) = tokens(fi, v, Style::Plain, &[]);
    render(fi, &toks) == fmts::e(fi).format_narsese(v)
}

/// sanity gate: plain tokens, concatenated, equal the formatter's output with spaces deleted
pub fn gate(fi: usize, v: &Narsese) -> bool {
    let (toks, _) = tokens(fi, v, Style::Plain, &[]);
    let mine = concat(&toks);
    let theirs: String = fmts::e(fi).format_narsese(v).chars().filter(|c| *c != ' ').collect();
    mine == theirs
}
