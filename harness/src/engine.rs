//! Engine: proptest-driven streams, exhaustive enumerations, replay files, known-finding
//! probes, classification counters, watchdog, evidence writer.
use proptest::strategy::{BoxedStrategy, ValueTree};
use proptest::test_runner::{Config, RngSeed, TestCaseError, TestError, TestRunner};
use serde::de::DeserializeOwned;
use serde::Serialize;
use serde_json::{json, Value};
use std::cell::{Cell, RefCell};
use std::collections::{BTreeMap, HashMap, HashSet};
use std::fmt::Debug;
use std::panic::{catch_unwind, AssertUnwindSafe};
use std::path::PathBuf;
use std::sync::atomic::{AtomicBool, AtomicU64, Ordering};
use std::sync::Mutex;
use std::time::{Duration, Instant};

#[derive(Clone, Copy, PartialEq, Eq, Debug)]
pub enum Tier {
    Quick,
    Thorough,
}
impl Tier {
    pub fn name(self) -> &'static str {
        match self {
            Tier::Quick => "quick",
            Tier::Thorough => "thorough",
        }
    }
}

#[derive(Clone, Debug)]
pub struct Failure {
    /// stable, coarse signature (what kind of disagreement)
    pub sig: String,
    /// human-readable details (expected / observed)
    pub detail: String,
}
impl Failure {
    pub fn new(sig: impl Into<String>, detail: impl Into<String>) -> Failure {
        Failure { sig: sig.into(), detail: detail.into() }
    }
}
pub type Check = Result<(), Failure>;

#[macro_export]
macro_rules! fail {
    ($sig:expr, $($arg:tt)*) => {
        return Err($crate::engine::Failure::new($sig, format!($($arg)*)))
    };
}

thread_local! {
    static COUNTING: Cell<bool> = Cell::new(true);
    static LAST_PANIC: RefCell<String> = RefCell::new(String::new());
}

/// switch the per-thread classification / counting off (fuzz targets: keep the target lean)
pub fn set_counting(on: bool) {
    COUNTING.with(|c| c.set(on));
}

static FUZZ_MODE: AtomicBool = AtomicBool::new(false);
/// inside a libFuzzer target: no watchdog bookkeeping at all (libFuzzer has its own -timeout)
pub fn is_fuzz_mode() -> bool {
    FUZZ_MODE.load(Ordering::Relaxed)
}
pub fn set_fuzz_mode() {
    FUZZ_MODE.store(true, Ordering::Relaxed);
    set_counting(false);
}

pub fn install_panic_hook() {
    std::panic::set_hook(Box::new(|info| {
        let msg = if let Some(s) = info.payload().downcast_ref::<&str>() {
            s.to_string()
        } else if let Some(s) = info.payload().downcast_ref::<String>() {
            s.clone()
        } else {
            "<non-string panic>".to_string()
        };
        let loc = info.location().map(|l| format!("{}:{}", l.file(), l.line())).unwrap_or_default();
        // (try_with: the hook may run while the thread's local values are being destroyed)
        let _ = LAST_PANIC.try_with(|p| {
            if let Ok(mut p) = p.try_borrow_mut() {
                *p = format!("{msg} @ {loc}");
            }
        });
    }));
}

/// run library code; a panic becomes Err(message)
pub fn guard<T>(f: impl FnOnce() -> T) -> Result<T, String> {
    match catch_unwind(AssertUnwindSafe(f)) {
        Ok(v) => Ok(v),
        Err(_) => Err(LAST_PANIC.try_with(|p| p.borrow().clone()).unwrap_or_else(|_| "panic (message unavailable: thread-local storage already destroyed)".to_string())),
    }
}

#[derive(Clone, Debug)]
pub struct Known {
    pub key: String,
    pub stream: String,
    pub input: Value,
    pub text: String,
}

pub struct Shared {
    pub id: &'static str,
    pub tier: Tier,
    pub seed: u64,
    pub root: PathBuf,
    evaluations: AtomicU64,
    nontrivial: Mutex<HashSet<u64>>,
    classes: Mutex<BTreeMap<String, u64>>,
    samples: Mutex<BTreeMap<String, Value>>,
    stream_info: Mutex<Vec<Value>>,
    pub violations: Mutex<Vec<(String, String)>>,
    pub known_reproduced: Mutex<Vec<String>>,
    pub known_vanished: Mutex<Vec<String>>,
    pub replays_run: AtomicU64,
    stop: AtomicBool,
    exhaustive_all: AtomicBool,
    any_generated: AtomicBool,
    watch: Mutex<HashMap<std::thread::ThreadId, (Instant, Value)>>,
    lazy: Mutex<HashMap<std::thread::ThreadId, (Instant, std::sync::Arc<dyn Fn() -> Value + Send + Sync>)>>,
    started: Instant,
    last_beat_ms: AtomicU64,
    streams_running: AtomicBool,
    pub shards_override: Option<usize>,
    pub scale: f64,
}

impl Shared {
    pub fn new(id: &'static str, tier: Tier, seed: u64, root: PathBuf) -> Shared {
        let scale = std::env::var("VERIF_SCALE").ok().and_then(|s| s.parse::<f64>().ok()).unwrap_or(1.0);
        Shared {
            id,
            tier,
            seed,
            root,
            evaluations: AtomicU64::new(0),
            nontrivial: Mutex::new(HashSet::new()),
            classes: Mutex::new(BTreeMap::new()),
            samples: Mutex::new(BTreeMap::new()),
            stream_info: Mutex::new(vec![]),
            violations: Mutex::new(vec![]),
            known_reproduced: Mutex::new(vec![]),
            known_vanished: Mutex::new(vec![]),
            replays_run: AtomicU64::new(0),
            stop: AtomicBool::new(false),
            exhaustive_all: AtomicBool::new(true),
            any_generated: AtomicBool::new(false),
            watch: Mutex::new(HashMap::new()),
            lazy: Mutex::new(HashMap::new()),
            started: Instant::now(),
            last_beat_ms: AtomicU64::new(0),
            streams_running: AtomicBool::new(false),
            shards_override: None,
            scale,
        }
    }
    fn counting() -> bool {
        COUNTING.with(|c| c.get())
    }
    /// one evaluation of the property on one case
    pub fn eval(&self) {
        if Self::counting() {
            self.evaluations.fetch_add(1, Ordering::Relaxed);
        }
    }
    pub fn evals(&self, n: u64) {
        if Self::counting() {
            self.evaluations.fetch_add(n, Ordering::Relaxed);
        }
    }
    /// the case satisfied the property's stated non-trivial rule; fingerprint for distinctness
    pub fn nontrivial(&self, fingerprint: u64) {
        if Self::counting() {
            self.nontrivial.lock().unwrap().insert(fingerprint);
        }
    }
    pub fn class(&self, label: &str) {
        if Self::counting() {
            *self.classes.lock().unwrap().entry(label.to_string()).or_insert(0) += 1;
        }
    }
    pub fn class_n(&self, label: &str, n: u64) {
        if Self::counting() {
            *self.classes.lock().unwrap().entry(label.to_string()).or_insert(0) += n;
        }
    }
    /// keep one sample per label (first seen)
    pub fn sample(&self, label: &str, v: impl FnOnce() -> Value) {
        if Self::counting() {
            let mut s = self.samples.lock().unwrap();
            if s.len() < 40 && !s.contains_key(label) {
                s.insert(label.to_string(), v());
            }
        }
    }
    /// publish the case being executed (for the stall watchdog; C04/C05/C12)
    pub fn watch(&self, v: impl FnOnce() -> Value) {
        if FUZZ_MODE.load(Ordering::Relaxed) {
            return;
        }
        let id = std::thread::current().id();
        let val = v();
        // crash recorder: the replay text of the running case, for the signal handler
        let replay = json!({"property": self.id, "stream": val["stream"], "case": val["case"], "note": "case that was executing when the process died"});
        crate::crash::publish(&replay.to_string());
        self.watch.lock().unwrap().insert(id, (Instant::now(), val));
    }
    pub fn unwatch(&self) {
        crate::crash::clear();
        let id = std::thread::current().id();
        self.watch.lock().unwrap().remove(&id);
    }
    /// cases that have been running longer than `limit`: (identity of the run, elapsed, case)
    pub fn stalled(&self, limit: Duration) -> Vec<(String, Duration, Value)> {
        let mut out = vec![];
        {
            let w = self.watch.lock().unwrap();
            for (id, (t, v)) in w.iter() {
                if t.elapsed() > limit {
                    out.push((format!("{id:?}@{t:?}"), t.elapsed(), v.clone()));
                }
            }
        }
        let l = self.lazy.lock().unwrap();
        for (id, (t, f)) in l.iter() {
            if t.elapsed() > limit {
                let key = format!("{id:?}@{t:?}");
                if !out.iter().any(|(k, _, _)| k.split('@').next() == key.split('@').next()) {
                    out.push((key, t.elapsed(), f()));
                }
            }
        }
        out
    }
    /// progress heartbeat (every check entry / exit)
    fn beat(&self) {
        self.last_beat_ms.store(self.started.elapsed().as_millis() as u64, Ordering::Relaxed);
    }
    /// seconds since the last heartbeat while streams are running
    fn silent_for(&self) -> f64 {
        if !self.streams_running.load(Ordering::Relaxed) {
            return 0.0;
        }
        (self.started.elapsed().as_millis() as u64).saturating_sub(self.last_beat_ms.load(Ordering::Relaxed)) as f64 / 1000.0
    }
    /// generic stall detection for every stream: remember (lazily serialisable) what runs
    fn watch_lazy(&self, f: std::sync::Arc<dyn Fn() -> Value + Send + Sync>) {
        if FUZZ_MODE.load(Ordering::Relaxed) {
            return;
        }
        let id = std::thread::current().id();
        self.lazy.lock().unwrap().insert(id, (Instant::now(), f));
    }
    fn unwatch_lazy(&self) {
        let id = std::thread::current().id();
        self.lazy.lock().unwrap().remove(&id);
    }
    /// only the totality properties have a bounded-time clause
    fn stall_is_violation(&self) -> bool {
        // CPU-time verdicts are calibrated for the optimised build only
        (self.id == "C04" || self.id == "C05") && !is_dbg_profile()
    }
    pub fn stopped(&self) -> bool {
        self.stop.load(Ordering::Relaxed)
    }

    pub fn write_replay(&self, stream: &str, case: &Value, f: &Failure) -> String {
        let dir = self.root.join("replays").join("found");
        let _ = std::fs::create_dir_all(&dir);
        let body = json!({
            "property": self.id,
            "stream": stream,
            "seed": self.seed,
            "tier": self.tier.name(),
            "signature": f.sig,
            "detail": f.detail,
            "case": case,
        });
        let text = serde_json::to_string_pretty(&body).unwrap();
        let h = crate::desc::fp_str(&format!("{stream}{case}"));
        let path = dir.join(format!("{}-{}-{:016x}.json", self.id, stream.replace('/', "_"), h));
        let _ = std::fs::write(&path, text);
        path.to_string_lossy().to_string()
    }

    pub fn report_violation(&self, stream: &str, case: &Value, f: &Failure) {
        let path = self.write_replay(stream, case, f);
        println!("VIOLATION property={} replay={}", self.id, path);
        println!("  stream={stream} signature={}", f.sig);
        for line in f.detail.lines().take(12) {
            let mut l = line.to_string();
            if l.chars().count() > 600 {
                l = l.chars().take(600).collect::<String>() + "…";
            }
            println!("  {l}");
        }
        self.violations.lock().unwrap().push((path, f.sig.clone()));
        self.stop.store(true, Ordering::Relaxed);
    }
}

fn mix(a: u64, b: u64) -> u64 {
    let mut z = a.wrapping_mul(0x9E3779B97F4A7C15).wrapping_add(b).wrapping_add(0x9E3779B97F4A7C15);
    z = (z ^ (z >> 30)).wrapping_mul(0xBF58476D1CE4E5B9);
    z = (z ^ (z >> 27)).wrapping_mul(0x94D049BB133111EB);
    z ^ (z >> 31)
}

pub enum Source<V> {
    Gen(Box<dyn Fn() -> BoxedStrategy<V> + Send + Sync>),
    /// finite enumeration; completed enumerations are reported as exhaustive for that sub-space
    Enum(Box<dyn Fn(Tier) -> Box<dyn Iterator<Item = V>> + Send + Sync>),
}

pub struct Stream<V> {
    pub name: &'static str,
    /// number of generated cases per tier (ignored for Enum)
    pub quick: u32,
    pub thorough: u32,
    pub source: Source<V>,
    pub check: Box<dyn Fn(&Shared, &V) -> Check + Send + Sync>,
}

pub trait AnyStream: Send + Sync {
    fn name(&self) -> &'static str;
    fn run(&self, sh: &Shared);
    fn replay(&self, sh: &Shared, case: &Value) -> Result<Check, String>;
}

const SEP: char = '\u{1}';

impl<V> Stream<V>
where
    V: Serialize + DeserializeOwned + Debug + Clone + Send + Sync + 'static,
{
    fn checked(&self, sh: &Shared, v: &V) -> Check
    where
        V: Sync,
    {
        let name = self.name;
        let copy = v.clone();
        sh.beat();
        if record_all() {
            // second attempt after the process died by a signal with no recorded culprit: every
            // case is handed to the crash recorder before it runs (see tools/crash_triage.sh)
            let replay = json!({"property": sh.id, "stream": name, "case": serde_json::to_value(v).unwrap_or(Value::Null), "note": "case that was executing when the process died"});
            crate::crash::publish(&replay.to_string());
        }
        sh.watch_lazy(std::sync::Arc::new(move || json!({"stream": name, "case": serde_json::to_value(&copy).unwrap_or(Value::Null)})));
        // API history: one case in eight is preceded by a battery of unrelated library calls
        if !is_fuzz_mode() {
            let k = case_key(v);
            if k % 8 == 0 {
                crate::prelude::run(k);
            }
        }
        // a panic inside the harness/check itself (not guarded library code) is also a failure
        let r = match guard(|| (self.check)(sh, v)) {
            Ok(r) => r,
            Err(p) => Err(Failure::new("panic", format!("panic escaped: {p}"))),
        };
        sh.unwatch_lazy();
        if record_all() {
            crate::crash::clear();
        }
        sh.beat();
        r
    }

    fn run_gen(&self, sh: &Shared, mk: &(dyn Fn() -> BoxedStrategy<V> + Send + Sync)) {
        sh.any_generated.store(true, Ordering::Relaxed);
        let total = match sh.tier {
            Tier::Quick => self.quick,
            Tier::Thorough => self.thorough,
        };
        let total = ((total as f64) * sh.scale).max(1.0) as u32;
        let shards = sh.shards_override.unwrap_or(match sh.tier {
            Tier::Quick => 8,
            Tier::Thorough => 16,
        });
        let shards = shards.min(total as usize).max(1);
        let before = sh.evaluations.load(Ordering::Relaxed);
        let t0 = Instant::now();
        std::thread::scope(|scope| {
            for k in 0..shards {
                let cases = total / shards as u32 + if (k as u32) < total % shards as u32 { 1 } else { 0 };
                let seed = mix(mix(sh.seed, crate::desc::fp_str(self.name)), k as u64);
                std::thread::Builder::new()
                    .stack_size(512 << 20)
                    .spawn_scoped(scope, move || {
                        COUNTING.with(|c| c.set(true));
                        let mut seed_bytes = [0u8; 32];
                        for i in 0..4 {
                            seed_bytes[i * 8..i * 8 + 8].copy_from_slice(&mix(seed, i as u64).to_le_bytes());
                        }
                        let _ = seed_bytes;
                        let mut runner = TestRunner::new(Config {
                            cases,
                            failure_persistence: None,
                            rng_seed: RngSeed::Fixed(seed),
                            max_shrink_iters: 4000,
                            max_global_rejects: 1 << 20,
                            ..Config::default()
                        });
                        let strat = mk();
                        let result = runner.run(&strat, |v| {
                            if sh.stopped() && Shared::counting() {
                                return Ok(());
                            }
                            match self.checked(sh, &v) {
                                Ok(()) => Ok(()),
                                Err(f) => {
                                    COUNTING.with(|c| c.set(false));
                                    Err(TestCaseError::fail(format!("{}{SEP}{}", f.sig, f.detail)))
                                }
                            }
                        });
                        sh.unwatch();
                        match result {
                            Ok(()) => {}
                            Err(TestError::Fail(reason, value)) => {
                                let reason = reason.message().to_string();
                                let (sig, detail) = match reason.split_once(SEP) {
                                    Some((a, b)) => (a.to_string(), b.to_string()),
                                    None => ("unknown".to_string(), reason),
                                };
                                let case = serde_json::to_value(&value).unwrap_or(Value::Null);
                                sh.report_violation(self.name, &case, &Failure { sig, detail });
                            }
                            Err(TestError::Abort(reason)) => {
                                println!("INCONCLUSIVE stream={} aborted: {}", self.name, reason.message());
                                sh.class("engine/aborted_stream");
                            }
                        }
                    })
                    .unwrap();
            }
        });
        let after = sh.evaluations.load(Ordering::Relaxed);
        sh.stream_info.lock().unwrap().push(json!({
            "stream": self.name, "kind": "generated", "cases_requested": total,
            "evaluations": after - before, "shards": shards,
            "wall_s": t0.elapsed().as_secs_f64(),
        }));
        let _ = strat_sample::<V>;
    }

    fn run_enum(&self, sh: &Shared, mk: &(dyn Fn(Tier) -> Box<dyn Iterator<Item = V>> + Send + Sync)) {
        let before = sh.evaluations.load(Ordering::Relaxed);
        let t0 = Instant::now();
        let shards = 16usize;
        let stride = enum_stride();
        if stride > 1 {
            sh.exhaustive_all.store(false, Ordering::Relaxed);
        }
        let failures: Mutex<Vec<(usize, Value, Failure)>> = Mutex::new(vec![]);
        let counted = AtomicU64::new(0);
        std::thread::scope(|scope| {
            for k in 0..shards {
                let failures = &failures;
                let counted = &counted;
                std::thread::Builder::new()
                    .stack_size(512 << 20)
                    .spawn_scoped(scope, move || {
                        COUNTING.with(|c| c.set(true));
                        for (i, v) in mk(sh.tier).enumerate() {
                            if i % stride != 0 || (i / stride) % shards != k {
                                continue;
                            }
                            if failures.lock().unwrap().len() >= 20 {
                                break;
                            }
                            counted.fetch_add(1, Ordering::Relaxed);
                            if let Err(f) = self.checked(sh, &v) {
                                let case = serde_json::to_value(&v).unwrap_or(Value::Null);
                                failures.lock().unwrap().push((case.to_string().len(), case, f));
                            }
                        }
                        sh.unwatch();
                    })
                    .unwrap();
            }
        });
        let mut fs = failures.into_inner().unwrap();
        let complete = fs.is_empty();
        if !complete {
            fs.sort_by_key(|f| f.0);
            let (_, case, f) = &fs[0];
            sh.report_violation(self.name, case, f);
            sh.exhaustive_all.store(false, Ordering::Relaxed);
        }
        let after = sh.evaluations.load(Ordering::Relaxed);
        sh.stream_info.lock().unwrap().push(json!({
            "stream": self.name, "kind": "enumeration", "enumerated": counted.load(Ordering::Relaxed),
            "evaluations": after - before, "completed": complete, "stride": stride,
            "wall_s": t0.elapsed().as_secs_f64(),
        }));
    }
}

fn strat_sample<V>() {}

/// the harness is built twice: the optimised build that decides each property and a replica
/// whose narsese crate is compiled like `cargo test` compiles it (opt-level 0, debug
/// assertions on); the driver sets VERIF_PROFILE=dbg for the latter
pub fn is_dbg_profile() -> bool {
    std::env::var("VERIF_PROFILE").map(|v| v == "dbg").unwrap_or(false)
}
/// fingerprint of a case (Debug text, FNV-1a): decides which cases get an API-history prelude
fn case_key<V: Debug>(v: &V) -> u64 {
    struct Fnv(u64);
    impl std::fmt::Write for Fnv {
        fn write_str(&mut self, s: &str) -> std::fmt::Result {
            for b in s.bytes() {
                self.0 ^= b as u64;
                self.0 = self.0.wrapping_mul(0x100000001b3);
            }
            Ok(())
        }
    }
    let mut h = Fnv(0xcbf29ce484222325);
    let _ = std::fmt::write(&mut h, format_args!("{v:?}"));
    h.0 ^ (h.0 >> 29)
}
fn record_all() -> bool {
    static R: std::sync::OnceLock<bool> = std::sync::OnceLock::new();
    *R.get_or_init(|| std::env::var("VERIF_RECORD_ALL").is_ok())
}
fn skipped_streams() -> Vec<String> {
    std::env::var("VERIF_SKIP_STREAMS").map(|v| v.split(',').map(|s| s.trim().to_string()).filter(|s| !s.is_empty()).collect()).unwrap_or_default()
}
fn enum_stride() -> usize {
    std::env::var("VERIF_ENUM_STRIDE").ok().and_then(|s| s.parse::<usize>().ok()).unwrap_or(1).max(1)
}

impl<V> AnyStream for Stream<V>
where
    V: Serialize + DeserializeOwned + Debug + Clone + Send + Sync + 'static,
{
    fn name(&self) -> &'static str {
        self.name
    }
    fn run(&self, sh: &Shared) {
        match &self.source {
            Source::Gen(mk) => self.run_gen(sh, mk.as_ref()),
            Source::Enum(mk) => self.run_enum(sh, mk.as_ref()),
        }
    }
    fn replay(&self, sh: &Shared, case: &Value) -> Result<Check, String> {
        let v: V = serde_json::from_value(case.clone()).map_err(|e| format!("cannot decode case: {e}"))?;
        Ok(self.checked(sh, &v))
    }
}

/// draw a few values of a strategy (for evidence samples)
pub fn draw<V: Debug>(strat: &BoxedStrategy<V>, seed: u64, n: usize) -> Vec<V> {
    use proptest::strategy::Strategy;
    let mut runner = TestRunner::new(Config { rng_seed: RngSeed::Fixed(seed), failure_persistence: None, ..Config::default() });
    (0..n).filter_map(|_| strat.new_tree(&mut runner).ok().map(|t| t.current())).collect()
}

pub struct Prop {
    pub id: &'static str,
    pub rule: &'static str,
    pub assumptions: &'static [&'static str],
    pub streams: fn() -> Vec<Box<dyn AnyStream>>,
}

pub fn load_known(root: &std::path::Path, id: &str) -> Result<Vec<Known>, String> {
    let path = root.join("KNOWN_FINDINGS.txt");
    let text = match std::fs::read_to_string(&path) {
        Ok(t) => t,
        Err(_) => return Ok(vec![]),
    };
    let mut out = vec![];
    for (ln, line) in text.lines().enumerate() {
        let line = line.trim();
        if !line.starts_with("known:") {
            continue;
        }
        let rest = line["known:".len()..].trim();
        let (head, text) = rest.split_once(" :: ").ok_or(format!("KNOWN_FINDINGS line {}: missing ' :: '", ln + 1))?;
        let (head, input) = head.split_once(" input=").ok_or(format!("KNOWN_FINDINGS line {}: missing input=", ln + 1))?;
        let mut prop = "";
        let mut key = "";
        let mut stream = "";
        for tok in head.split_whitespace() {
            if let Some(v) = tok.strip_prefix("property=") {
                prop = v;
            } else if let Some(v) = tok.strip_prefix("key=") {
                key = v;
            } else if let Some(v) = tok.strip_prefix("stream=") {
                stream = v;
            }
        }
        if prop != id {
            continue;
        }
        let input: Value = serde_json::from_str(input.trim()).map_err(|e| format!("KNOWN_FINDINGS line {}: bad json: {e}", ln + 1))?;
        out.push(Known { key: key.to_string(), stream: stream.to_string(), input, text: text.trim().to_string() });
    }
    Ok(out)
}

/// run one property: regression replays, known-finding probes, streams; write evidence.
/// returns process exit code.
pub fn run_property(prop: &Prop, tier: Tier, seed: u64, root: PathBuf, only_stream: Option<&str>) -> i32 {
    let t0 = Instant::now();
    let sh = Shared::new(prop.id, tier, seed, root.clone());
    let streams = (prop.streams)();
    let by_name = |n: &str| streams.iter().find(|s| s.name() == n);
    let mut infra_error = false;

    // watchdog thread (stall => confirm in a child process)
    let done = AtomicBool::new(false);
    let mut exit_override: Option<i32> = None;
    std::thread::scope(|scope| {
        let sh_ref = &sh;
        let done_ref = &done;
        let wd = scope.spawn(move || -> Option<i32> {
            let mut handled: HashSet<String> = HashSet::new();
            let mut ticks = 0u64;
            while !done_ref.load(Ordering::Relaxed) {
                std::thread::sleep(Duration::from_millis(50));
                ticks += 1;
                // memory guard: a runaway allocation (e.g. a parser loop that stops consuming) must not
                // take the machine down; look at it like at a stall, but at once
                if ticks % 4 == 0 && rss_bytes() > (12u64 << 30) {
                    let mut longest = sh_ref.stalled(Duration::from_millis(500));
                    longest.sort_by_key(|x| std::cmp::Reverse(x.1));
                    if sh_ref.stall_is_violation() {
                        if let Some((_, _, v)) = longest.first() {
                            handle_stall(sh_ref, v);
                        }
                    }
                    println!("INCONCLUSIVE property={} the harness process exceeded 12 GiB of memory; giving up", sh_ref.id);
                    std::process::exit(2);
                }
                // nothing is inside a check, yet nothing progresses: a generator (or shrinker) is stuck
                // in library code it calls while building values
                if sh_ref.silent_for() > 150.0 && sh_ref.stalled(Duration::from_secs(1)).is_empty() {
                    println!("INCONCLUSIVE property={} no progress for 150 s outside any check (a generator is stuck building a value)", sh_ref.id);
                    std::process::exit(2);
                }
                for (key, elapsed, v) in sh_ref.stalled(Duration::from_secs(20)) {
                    let limit = if sh_ref.stall_is_violation() { 900 } else { 600 };
                    if elapsed > Duration::from_secs(limit) {
                        println!("INCONCLUSIVE property={} a case has been running for {limit} s", sh_ref.id);
                        std::process::exit(2);
                    }
                    if handled.insert(key) {
                        // exits the process for a confirmed violation; returns when the stall is benign
                        handle_stall(sh_ref, &v);
                    }
                }
            }
            None
        });

        // 1. regression replays
        let rdir = root.join("replays").join("regress").join(prop.id);
        if let Ok(rd) = std::fs::read_dir(&rdir) {
            let mut files: Vec<_> = rd.filter_map(|e| e.ok()).map(|e| e.path()).filter(|p| p.extension().map(|e| e == "json").unwrap_or(false)).collect();
            files.sort();
            for p in files {
                let text = std::fs::read_to_string(&p).unwrap_or_default();
                let v: Value = match parse_json(&text) {
                    Ok(v) => v,
                    Err(e) => {
                        println!("ERROR bad replay file {}: {e}", p.display());
                        infra_error = true;
                        continue;
                    }
                };
                let sname = v["stream"].as_str().unwrap_or("");
                match by_name(sname) {
                    None => {
                        println!("ERROR replay file {} names unknown stream {sname}", p.display());
                        infra_error = true;
                    }
                    Some(s) => {
                        sh.replays_run.fetch_add(1, Ordering::Relaxed);
                        match s.replay(&sh, &v["case"]) {
                            Err(e) => {
                                println!("ERROR replay file {}: {e}", p.display());
                                infra_error = true;
                            }
                            Ok(Ok(())) => {}
                            Ok(Err(f)) => {
                                println!("VIOLATION property={} replay={}", prop.id, p.display());
                                println!("  (regression replay) signature={}", f.sig);
                                for l in f.detail.lines().take(8) {
                                    println!("  {l}");
                                }
                                sh.violations.lock().unwrap().push((p.to_string_lossy().to_string(), f.sig));
                            }
                        }
                    }
                }
            }
        }

        // 2. known-finding probes
        match load_known(&root, prop.id) {
            Err(e) => {
                println!("ERROR {e}");
                infra_error = true;
            }
            Ok(known) => {
                for k in known {
                    match by_name(&k.stream) {
                        None => {
                            println!("ERROR known finding names unknown stream {}", k.stream);
                            infra_error = true;
                        }
                        Some(s) => match s.replay(&sh, &k.input) {
                            Err(e) => {
                                println!("ERROR known finding input: {e}");
                                infra_error = true;
                            }
                            Ok(Ok(())) => {
                                sh.known_vanished.lock().unwrap().push(k.text.clone());
                            }
                            Ok(Err(f)) if f.sig == k.key => {
                                println!("KNOWN-FINDING: property={} {}", prop.id, k.text);
                                sh.known_reproduced.lock().unwrap().push(format!("{} :: {}", k.key, k.text));
                            }
                            Ok(Err(f)) => {
                                sh.report_violation(&k.stream, &k.input, &Failure::new(f.sig.clone(), format!("known-finding input now fails differently (listed key {}): {}", k.key, f.detail)));
                            }
                        },
                    }
                }
            }
        }
        // probes must not stop the generated streams
        let had_violation_before = !sh.violations.lock().unwrap().is_empty();
        sh.stop.store(false, Ordering::Relaxed);

        // 3. streams
        sh.beat();
        sh.streams_running.store(true, Ordering::Relaxed);
        let skip = skipped_streams();
        for s in &streams {
            if let Some(o) = only_stream {
                if s.name() != o {
                    continue;
                }
            }
            if sh.stopped() {
                break;
            }
            if skip.iter().any(|n| n == s.name()) {
                continue;
            }
            s.run(&sh);
        }
        let _ = had_violation_before;
        sh.streams_running.store(false, Ordering::Relaxed);
        done.store(true, Ordering::Relaxed);
        exit_override = wd.join().ok().flatten();
    });

    let violations = sh.violations.lock().unwrap().len();
    write_evidence(prop, &sh, t0.elapsed().as_secs_f64(), violations);
    if let Some(c) = exit_override {
        return c;
    }
    if violations > 0 {
        1
    } else if infra_error {
        2
    } else {
        0
    }
}

fn rss_bytes() -> u64 {
    std::fs::read_to_string("/proc/self/statm").ok().and_then(|s| s.split_whitespace().nth(1).and_then(|x| x.parse::<u64>().ok())).map(|p| p * 4096).unwrap_or(0)
}

/// address-space limit for this process (a runaway allocation then aborts instead of exhausting the machine)
pub fn limit_memory(gib: u64) {
    unsafe {
        let lim = libc::rlimit { rlim_cur: gib << 30, rlim_max: gib << 30 };
        libc::setrlimit(libc::RLIMIT_AS, &lim);
    }
}

fn child_cpu_seconds(pid: u32) -> Option<f64> {
    let stat = std::fs::read_to_string(format!("/proc/{pid}/stat")).ok()?;
    let rest = stat.rsplit_once(')')?.1;
    let f: Vec<&str> = rest.split_whitespace().collect();
    // after the command name: state is field 0, utime field 11, stime field 12
    let ut: f64 = f.get(11)?.parse().ok()?;
    let st: f64 = f.get(12)?.parse().ok()?;
    let hz = unsafe { libc::sysconf(libc::_SC_CLK_TCK) } as f64;
    Some((ut + st) / hz.max(1.0))
}

/// A case has been running for more than 20 s of wall time. For the totality properties it is
/// re-run in a fresh child process and judged by the CPU time it consumes THERE (independent of
/// machine load; in-bounds inputs need milliseconds): > 10 s CPU ⇒ violation of the bounded-time
/// clause. Otherwise the stall is benign (busy machine) and the run continues.
fn handle_stall(sh: &Shared, v: &Value) {
    let f = Failure::new("stall", "case was still running after 20 s of wall time");
    let path = sh.write_replay(v["stream"].as_str().unwrap_or("unknown"), &v["case"], &f);
    if !sh.stall_is_violation() {
        println!("NOTE property={} a case has been running for 20 s (bounded time is C04/C05's clause, not this property's); waiting: {path}", sh.id);
        return;
    }
    let exe = std::env::current_exe().unwrap();
    let mut child = match std::process::Command::new(exe).arg(sh.id).arg("--replay").arg(&path).stdout(std::process::Stdio::null()).spawn() {
        Ok(c) => c,
        Err(_) => {
            println!("NOTE stall could not be examined in isolation (spawn failed) case={path}");
            return;
        }
    };
    let t0 = Instant::now();
    let mut last_cpu = 0.0f64;
    loop {
        match child.try_wait() {
            Ok(Some(status)) => {
                use std::os::unix::process::ExitStatusExt;
                if let Some(sig) = status.signal() {
                    println!("VIOLATION property={} replay={}", sh.id, path);
                    println!("  signature=crash: the isolated process dies with signal {sig} on this case (abort / stack overflow / memory exhaustion)");
                    std::process::exit(1);
                }
                if last_cpu > 10.0 {
                    println!("VIOLATION property={} replay={}", sh.id, path);
                    println!("  signature=slow: the case needs {last_cpu:.1} s of CPU time in an isolated process (inputs within the property's bounds normally need milliseconds); bounded-time clause");
                    std::process::exit(1);
                }
                println!("NOTE a case was still running after 20 s of wall time but needs only {last_cpu:.1} s CPU in isolation (busy machine): {path}");
                let _ = std::fs::remove_file(&path);
                return;
            }
            Ok(None) => {
                if let Some(c) = child_cpu_seconds(child.id()) {
                    last_cpu = c;
                }
                if last_cpu > 30.0 {
                    let _ = child.kill();
                    let _ = child.wait();
                    println!("VIOLATION property={} replay={}", sh.id, path);
                    println!("  signature=hang: the call consumed {last_cpu:.0} s of CPU time in an isolated process without returning; bounded-time clause");
                    std::process::exit(1);
                }
                if t0.elapsed() > Duration::from_secs(900) {
                    let _ = child.kill();
                    println!("INCONCLUSIVE property={} isolated re-run got only {last_cpu:.1} s CPU in 15 minutes: {path}", sh.id);
                    std::process::exit(2);
                }
                std::thread::sleep(Duration::from_millis(100));
            }
            Err(_) => return,
        }
    }
}

fn write_evidence(prop: &Prop, sh: &Shared, wall: f64, violations: usize) {
    let classes = sh.classes.lock().unwrap().clone();
    let samples: Vec<Value> = sh.samples.lock().unwrap().iter().map(|(k, v)| json!({"class": k, "case": v})).collect();
    let streams = sh.stream_info.lock().unwrap().clone();
    let only_enum = !sh.any_generated.load(Ordering::Relaxed) && sh.exhaustive_all.load(Ordering::Relaxed) && !streams.is_empty();
    let mut coverage = json!({
        "evaluations": sh.evaluations.load(Ordering::Relaxed),
        "distinct_nontrivial": sh.nontrivial.lock().unwrap().len(),
        "rule": prop.rule,
        "samples": samples,
        "classes": classes,
        "streams": streams,
        "replays_run": sh.replays_run.load(Ordering::Relaxed),
        "known_findings_reproduced": *sh.known_reproduced.lock().unwrap(),
        "known_findings_not_reproduced": *sh.known_vanished.lock().unwrap(),
    });
    if only_enum {
        coverage["exhaustive"] = json!(true);
    }
    let ev = json!({
        "property_id": prop.id,
        "tier": sh.tier.name(),
        "seed": sh.seed,
        "level": "exploration",
        "coverage": coverage,
        "assumptions": prop.assumptions,
        "wall_s": wall,
        "violations": violations,
        "build_profile": if is_dbg_profile() { "dbg (narsese: opt-level 0, debug assertions on)" } else { "release (opt-level 2, overflow checks on, debug assertions off)" },
        "environment_set": std::env::var("VERIF_ENV_SET").unwrap_or_default(),
    });
    // replica runs (VERIF_PROFILE=dbg | env) write next to the main evidence, never over it
    let dir = match std::env::var("VERIF_PROFILE") {
        Ok(p) if !p.is_empty() => sh.root.join(format!("evidence-{p}")),
        _ => sh.root.join("evidence"),
    };
    let _ = std::fs::create_dir_all(&dir);
    let _ = std::fs::write(dir.join(format!("{}.json", prop.id)), serde_json::to_string_pretty(&ev).unwrap());
}

/// JSON text → Value without serde_json's nesting limit of 128 (replay files of very deep
/// values); callers run on big-stack threads
pub fn parse_json(text: &str) -> Result<Value, String> {
    let mut de = serde_json::Deserializer::from_str(text);
    de.disable_recursion_limit();
    let v = <Value as serde::Deserialize>::deserialize(&mut de).map_err(|e| e.to_string())?;
    Ok(v)
}

pub fn replay_file(prop: &Prop, root: PathBuf, path: &str) -> i32 {
    let text = match std::fs::read_to_string(path) {
        Ok(t) => t,
        Err(e) => {
            println!("ERROR cannot read {path}: {e}");
            return 2;
        }
    };
    let v: Value = match parse_json(&text) {
        Ok(v) => v,
        Err(e) => {
            println!("ERROR bad json {path}: {e}");
            return 2;
        }
    };
    let sh = Shared::new(prop.id, Tier::Quick, 0, root);
    let streams = (prop.streams)();
    let sname = v["stream"].as_str().unwrap_or("");
    let Some(s) = streams.iter().find(|s| s.name() == sname) else {
        println!("ERROR unknown stream {sname}");
        return 2;
    };
    match s.replay(&sh, &v["case"]) {
        Err(e) => {
            println!("ERROR {e}");
            2
        }
        Ok(Ok(())) => {
            println!("REPLAY-OK property={} stream={sname}: the case passes on this tree", prop.id);
            0
        }
        Ok(Err(f)) => {
            println!("VIOLATION property={} replay={}", prop.id, path);
            println!("  signature={}", f.sig);
            for l in f.detail.lines().take(20) {
                println!("  {l}");
            }
            1
        }
    }
}
