//! Lexical Narsese: serialisable mirror types, vocabulary of a lexical format, generators.
use crate::desc::*;
use crate::fmts;
use crate::gen;
use nar_dev_utils::{PrefixMatch, SuffixMatch};
use narsese::lexical as lx;
use proptest::collection::vec;
use proptest::prelude::*;
use proptest::sample::select;
use serde::{Deserialize, Serialize};

#[derive(Clone, Debug, PartialEq, Eq, Hash, Serialize, Deserialize)]
pub enum LT {
    Atom { prefix: String, name: String },
    Compound { connecter: String, terms: Vec<LT> },
    Set { left: String, terms: Vec<LT>, right: String },
    Statement { copula: String, subject: Box<LT>, predicate: Box<LT> },
}

#[derive(Clone, Debug, PartialEq, Eq, Hash, Serialize, Deserialize)]
pub struct LS {
    pub term: LT,
    pub punct: String,
    pub stamp: String,
    pub truth: Vec<String>,
}

#[derive(Clone, Debug, PartialEq, Eq, Hash, Serialize, Deserialize)]
pub enum LN {
    Term(LT),
    Sentence(LS),
    Task { budget: Vec<String>, s: LS },
}

impl LT {
    pub fn atom(prefix: &str, name: &str) -> LT {
        LT::Atom { prefix: prefix.to_string(), name: name.to_string() }
    }
    pub fn is_atom(&self) -> bool {
        matches!(self, LT::Atom { .. })
    }
    pub fn depth(&self) -> usize {
        match self {
            LT::Atom { .. } => 1,
            LT::Compound { terms, .. } | LT::Set { terms, .. } => 1 + terms.iter().map(|t| t.depth()).max().unwrap_or(0),
            LT::Statement { subject, predicate, .. } => 1 + subject.depth().max(predicate.depth()),
        }
    }
    pub fn to_lex(&self) -> lx::Term {
        match self {
            LT::Atom { prefix, name } => lx::Term::Atom { prefix: prefix.clone(), name: name.clone() },
            LT::Compound { connecter, terms } => lx::Term::Compound { connecter: connecter.clone(), terms: terms.iter().map(|t| t.to_lex()).collect() },
            LT::Set { left, terms, right } => lx::Term::Set { left_bracket: left.clone(), terms: terms.iter().map(|t| t.to_lex()).collect(), right_bracket: right.clone() },
            LT::Statement { copula, subject, predicate } => lx::Term::Statement { copula: copula.clone(), subject: Box::new(subject.to_lex()), predicate: Box::new(predicate.to_lex()) },
        }
    }
    pub fn from_lex(t: &lx::Term) -> LT {
        match t {
            lx::Term::Atom { prefix, name } => LT::Atom { prefix: prefix.clone(), name: name.clone() },
            lx::Term::Compound { connecter, terms } => LT::Compound { connecter: connecter.clone(), terms: terms.iter().map(LT::from_lex).collect() },
            lx::Term::Set { left_bracket, terms, right_bracket } => LT::Set { left: left_bracket.clone(), terms: terms.iter().map(LT::from_lex).collect(), right: right_bracket.clone() },
            lx::Term::Statement { copula, subject, predicate } => LT::Statement { copula: copula.clone(), subject: Box::new(LT::from_lex(subject)), predicate: Box::new(LT::from_lex(predicate)) },
        }
    }
}

impl LS {
    pub fn to_lex(&self) -> lx::Sentence {
        lx::Sentence { term: self.term.to_lex(), punctuation: self.punct.clone(), stamp: self.stamp.clone(), truth: self.truth.clone() }
    }
    pub fn from_lex(s: &lx::Sentence) -> LS {
        LS { term: LT::from_lex(&s.term), punct: s.punctuation.clone(), stamp: s.stamp.clone(), truth: s.truth.clone() }
    }
}

impl LN {
    pub fn to_lex(&self) -> lx::Narsese {
        match self {
            LN::Term(t) => lx::Narsese::Term(t.to_lex()),
            LN::Sentence(s) => lx::Narsese::Sentence(s.to_lex()),
            LN::Task { budget, s } => lx::Narsese::Task(lx::Task { budget: budget.clone(), sentence: s.to_lex() }),
        }
    }
    pub fn from_lex(v: &lx::Narsese) -> LN {
        match v {
            lx::Narsese::Term(t) => LN::Term(LT::from_lex(t)),
            lx::Narsese::Sentence(s) => LN::Sentence(LS::from_lex(s)),
            lx::Narsese::Task(t) => LN::Task { budget: t.budget.clone(), s: LS::from_lex(&t.sentence) },
        }
    }
    pub fn term(&self) -> &LT {
        match self {
            LN::Term(t) => t,
            LN::Sentence(s) => &s.term,
            LN::Task { s, .. } => &s.term,
        }
    }
    pub fn kind_name(&self) -> &'static str {
        match self {
            LN::Term(_) => "term",
            LN::Sentence(_) => "sentence",
            LN::Task { .. } => "task",
        }
    }
}

/// the vocabulary of a shipped lexical format, read from its own dictionaries
#[derive(Clone, Debug)]
pub struct Vocab {
    pub prefixes: Vec<String>,
    pub connecters: Vec<String>,
    pub copulas: Vec<String>,
    pub puncts: Vec<String>,
    pub set_brackets: Vec<(String, String)>,
    /// (left, right) of every stamp form; tense forms have an empty left part
    pub stamp_forms: Vec<(String, String)>,
}

impl Vocab {
    pub fn all_keywords(&self) -> Vec<String> {
        let mut v: Vec<String> = vec![];
        v.extend(self.prefixes.iter().cloned());
        v.extend(self.connecters.iter().cloned());
        v.extend(self.copulas.iter().cloned());
        v.extend(self.puncts.iter().cloned());
        for (l, r) in self.set_brackets.iter().chain(self.stamp_forms.iter()) {
            v.push(l.clone());
            v.push(r.clone());
        }
        v
    }
}

pub fn vocab(fi: usize) -> Vocab {
    let l = fmts::l(fi);
    Vocab {
        prefixes: l.atom.prefixes.iter_x_fixes().cloned().collect(),
        connecters: l.compound.connecters.iter_x_fixes().cloned().collect(),
        copulas: l.statement.copulas.iter_x_fixes().cloned().collect(),
        puncts: l.sentence.punctuations.iter_x_fixes().cloned().collect(),
        set_brackets: PrefixMatch::prefix_terms(&l.compound.set_brackets).cloned().collect(),
        stamp_forms: SuffixMatch::suffix_terms(&l.sentence.stamp_brackets).map(|t| (t.0.clone(), t.1.clone())).collect(),
    }
}

pub fn numeric_string() -> BoxedStrategy<String> {
    prop_oneof![
        60 => select(vec!["0", "1", "0.5", "0.9", "1.0", ".", "1.2.3", "00", ".9", "9.", "0.75", "007", "3.14", "99999999999999999999"]).prop_map(|s| s.to_string()),
        40 => vec(select("0123456789.".chars().collect::<Vec<_>>()), 1..=8).prop_map(|v| v.into_iter().collect::<String>()),
    ]
    .boxed()
}

pub fn stamp_string(v: &Vocab) -> BoxedStrategy<String> {
    let tense: Vec<String> = v.stamp_forms.iter().filter(|(l, _)| l.is_empty()).map(|(_, r)| r.clone()).collect();
    let fixed: Vec<(String, String)> = v.stamp_forms.iter().filter(|(l, _)| !l.is_empty()).cloned().collect();
    let digits = prop_oneof![
        50 => select(vec!["0", "1", "-1", "+5", "007", "-9223372036854775808", "9223372036854775807", "123456789012345678901234567890"]).prop_map(|s| s.to_string()),
        50 => (select(vec!["", "-", "+"]), vec(select("0123456789".chars().collect::<Vec<_>>()), 1..=10)).prop_map(|(s, d)| format!("{s}{}", d.into_iter().collect::<String>())),
    ];
    let mut options: Vec<(u32, BoxedStrategy<String>)> = vec![(30, Just(String::new()).boxed())];
    if !tense.is_empty() {
        options.push((30, select(tense).boxed()));
    }
    if !fixed.is_empty() {
        options.push((40, (select(fixed), digits).prop_map(|((l, r), d)| format!("{l}{d}{r}")).boxed()));
    }
    proptest::strategy::Union::new_weighted(options).boxed()
}

/// vocabulary-consistent lexical terms: any connecter / copula / prefix with any arity ≥ 1
pub fn vocab_term(fi: usize, profile: gen::NameProfile, depth: u32, size: u32) -> BoxedStrategy<LT> {
    let v = vocab(fi);
    let nm = gen::name(fi, profile);
    // the placeholder prefix is the enum table's; every other non-empty-name atom takes any prefix
    let ph = fmts::e(fi).atom.prefix_placeholder.to_string();
    let non_ph: Vec<String> = v.prefixes.iter().filter(|p| **p != ph).cloned().collect();
    let has_ph = v.prefixes.contains(&ph);
    let named = (select(non_ph), nm).prop_map(|(p, n)| LT::Atom { prefix: p, name: n });
    let leaf: BoxedStrategy<LT> = if has_ph { prop_oneof![92 => named, 8 => Just(LT::atom(&ph, ""))].boxed() } else { named.boxed() };
    let v2 = v.clone();
    leaf.prop_recursive(depth, size, 5, move |inner| {
        prop_oneof![
            35 => (select(v2.connecters.clone()), vec(inner.clone(), 1..=5), 0u8..6).prop_map(|(c, mut terms, dup)| {
                if dup == 0 {
                    // the lexical model keeps repeated components, adjacent ones included
                    let last = terms[terms.len() - 1].clone();
                    terms.push(last);
                }
                LT::Compound { connecter: c, terms }
            }),
            25 => (select(v2.set_brackets.clone()), vec(inner.clone(), 1..=5), 0u8..5).prop_map(|((l, r), mut terms, dup)| {
                if dup == 0 {
                    let first = terms[0].clone();
                    terms.insert(0, first);
                }
                LT::Set { left: l, terms, right: r }
            }),
            40 => (select(v2.copulas.clone()), inner.clone(), inner).prop_map(|(c, s, p)| LT::Statement { copula: c, subject: Box::new(s), predicate: Box::new(p) }),
        ]
    })
    .boxed()
}

pub fn vocab_value(fi: usize, profile: gen::NameProfile) -> BoxedStrategy<LN> {
    let v = vocab(fi);
    let term = vocab_term(fi, profile, 4, 24);
    let sentence = (term.clone(), select(v.puncts.clone()), stamp_string(&v), vec(numeric_string(), 0..=4)).prop_map(|(term, punct, stamp, truth)| LS { term, punct, stamp, truth });
    prop_oneof![
        30 => term.prop_map(LN::Term),
        35 => sentence.clone().prop_map(LN::Sentence),
        35 => (vec(numeric_string(), 0..=5), sentence).prop_map(|(budget, s)| LN::Task { budget, s }),
    ]
    .boxed()
}

// ---------------------------------------------------------------------------------------
// arity-valid lexical values derived from descriptions (keywords by role from the enum table
// of the same name; C03 is exactly the claim that both tables describe the same vocabulary)

pub fn connecter_of(fi: usize, k: Kind) -> &'static str {
    let c = &fmts::e(fi).compound;
    match k {
        IntExt => c.connecter_intersection_extension,
        IntInt => c.connecter_intersection_intension,
        DiffExt => c.connecter_difference_extension,
        DiffInt => c.connecter_difference_intension,
        Product => c.connecter_product,
        ImgExt => c.connecter_image_extension,
        ImgInt => c.connecter_image_intension,
        Conj => c.connecter_conjunction,
        Disj => c.connecter_disjunction,
        Neg => c.connecter_negation,
        Seq => c.connecter_conjunction_sequential,
        Par => c.connecter_conjunction_parallel,
        _ => "",
    }
}
pub fn copula_of(fi: usize, k: Kind) -> &'static str {
    let s = &fmts::e(fi).statement;
    match k {
        Inh => s.copula_inheritance,
        Sim => s.copula_similarity,
        Imp => s.copula_implication,
        Equ => s.copula_equivalence,
        ImpPred => s.copula_implication_predictive,
        ImpConc => s.copula_implication_concurrent,
        ImpRetro => s.copula_implication_retrospective,
        EquPred => s.copula_equivalence_predictive,
        EquConc => s.copula_equivalence_concurrent,
        _ => "",
    }
}
pub fn prefix_of(fi: usize, k: Kind) -> &'static str {
    let a = &fmts::e(fi).atom;
    match k {
        Word => a.prefix_word,
        Placeholder => a.prefix_placeholder,
        IVar => a.prefix_variable_independent,
        DVar => a.prefix_variable_dependent,
        QVar => a.prefix_variable_query,
        Interval => a.prefix_interval,
        Op => a.prefix_operator,
        _ => "",
    }
}

/// description → arity-valid lexical term (plain: no sugar)
pub fn lex_of_desc(fi: usize, d: &D) -> LT {
    let f = fmts::e(fi);
    let kids = || d.kids.iter().map(|k| lex_of_desc(fi, k)).collect::<Vec<_>>();
    if d.k.is_atom() {
        let name = match d.k {
            Interval => d.n.to_string(),
            Placeholder => String::new(),
            _ => d.name.clone(),
        };
        return LT::Atom { prefix: prefix_of(fi, d.k).to_string(), name };
    }
    if d.k == SetExt {
        let b = f.compound.brackets_set_extension;
        return LT::Set { left: b.0.to_string(), terms: kids(), right: b.1.to_string() };
    }
    if d.k == SetInt {
        let b = f.compound.brackets_set_intension;
        return LT::Set { left: b.0.to_string(), terms: kids(), right: b.1.to_string() };
    }
    if d.k.is_statement() {
        let mut k = kids();
        let p = k.pop().unwrap();
        let s = k.pop().unwrap();
        return LT::Statement { copula: copula_of(fi, d.k).to_string(), subject: Box::new(s), predicate: Box::new(p) };
    }
    let mut terms = kids();
    if d.k.is_image() {
        terms.insert(d.n.min(terms.len()), LT::atom(f.atom.prefix_placeholder, ""));
    }
    LT::Compound { connecter: connecter_of(fi, d.k).to_string(), terms }
}

pub fn float_string(x: F, variant: u8) -> String {
    let s = x.f().to_string();
    match variant % 4 {
        0 | 1 => s,
        2 => {
            if s.contains('.') { format!("{s}0") } else { format!("{s}.0") }
        }
        _ => {
            if let Some(rest) = s.strip_prefix("0.") { format!(".{rest}") } else { s }
        }
    }
}

pub fn lex_stamp(fi: usize, st: St, variant: u8) -> String {
    let s = &fmts::e(fi).sentence;
    match st {
        St::Eternal => String::new(),
        St::Past => format!("{}{}{}", s.stamp_brackets.0, s.stamp_past, s.stamp_brackets.1),
        St::Present => format!("{}{}{}", s.stamp_brackets.0, s.stamp_present, s.stamp_brackets.1),
        St::Future => format!("{}{}{}", s.stamp_brackets.0, s.stamp_future, s.stamp_brackets.1),
        St::Fixed(t) => {
            let num = if variant % 3 == 2 && t >= 0 { format!("+{t}") } else { t.to_string() };
            format!("{}{}{}{}", s.stamp_brackets.0, s.stamp_fixed, num, s.stamp_brackets.1)
        }
    }
}

pub fn lex_punct(fi: usize, p: P) -> String {
    let s = &fmts::e(fi).sentence;
    match p {
        P::Judgement => s.punctuation_judgement,
        P::Goal => s.punctuation_goal,
        P::Question => s.punctuation_question,
        P::Quest => s.punctuation_quest,
    }
    .to_string()
}

pub fn lex_of_nd(fi: usize, v: &ND, tape: &[u8]) -> LN {
    let mut i = 0usize;
    let mut next = || {
        let b = if tape.is_empty() { 0 } else { tape[i % tape.len()] };
        i += 1;
        b
    };
    let sentence = |s: &SD, next: &mut dyn FnMut() -> u8| LS {
        term: lex_of_desc(fi, &s.term),
        punct: lex_punct(fi, s.punct),
        stamp: lex_stamp(fi, s.stamp, next()),
        truth: s.truth.iter().map(|x| float_string(*x, next())).collect(),
    };
    match v {
        ND::Term(d) => LN::Term(lex_of_desc(fi, d)),
        ND::Sentence(s) => LN::Sentence(sentence(s, &mut next)),
        ND::Task(t) => {
            let s = sentence(&t.s, &mut next);
            LN::Task { budget: t.budget.iter().map(|x| float_string(*x, next())).collect(), s }
        }
    }
}

// ---------------------------------------------------------------------------------------
// arbitrary lexical values (fold totality): every field arbitrary or near-valid

/// (pool of degenerate field texts, keyword fragments) for format `fi`
pub fn wild_texts(fi: usize) -> (Vec<String>, Vec<String>) {
    let v = vocab(fi);
    let mut pool: Vec<String> = vec!["", "NaN", "nan", "inf", "-inf", "infinity", "1e400", "1e-400", "-0", "+7", "-1", "1.5", "2", "0.5", "1", "0", ":!:", "t=", "发生在--", ":!5", "!5:", ":|", "abc", " ", "0x10", "١", "1_0", "1e0", "+", "-", "18446744073709551616", "18446744073709551615", "99999999999999999999", "-9223372036854775808", "9223372036854775808", "-5", "٣"]
        .into_iter()
        .map(|s| s.to_string())
        .collect();
    pool.extend(v.prefixes.iter().cloned());
    pool.extend(v.connecters.iter().cloned());
    pool.extend(v.copulas.iter().cloned());
    pool.extend(v.puncts.iter().cloned());
    for (l, r) in &v.stamp_forms {
        pool.push(format!("{l}{r}"));
        pool.push(format!("{l}5{r}"));
        pool.push(format!("{l}-5{r}"));
        pool.push(format!("{l} 5{r}"));
        pool.push(format!("{l}99999999999999999999{r}"));
    }
    for (l, r) in &v.set_brackets {
        pool.push(l.clone());
        pool.push(r.clone());
    }
    // fragments: every proper prefix / suffix of every keyword and of the enum format's decoration
    // brackets (a field that is only the opening half of its own bracket, a one-character
    // remainder of a tense marker, …): the degenerate texts a fold has to refuse cleanly
    let mut frags: Vec<String> = vec![];
    let e = fmts::e(fi);
    let mut words = v.all_keywords();
    for w in [e.sentence.stamp_brackets.0, e.sentence.stamp_brackets.1, e.sentence.truth_brackets.0, e.sentence.truth_brackets.1, e.task.budget_brackets.0, e.task.budget_brackets.1, e.sentence.stamp_fixed, e.sentence.stamp_past, e.sentence.stamp_present, e.sentence.stamp_future] {
        words.push(w.to_string());
    }
    for w in &words {
        let cs: Vec<char> = w.chars().collect();
        for i in 1..=cs.len() {
            frags.push(cs[..i].iter().collect());
            frags.push(cs[cs.len() - i..].iter().collect());
        }
    }
    frags.sort();
    frags.dedup();
    (pool, frags)
}

fn wild_string(fi: usize) -> BoxedStrategy<String> {
    let (pool, frags) = wild_texts(fi);
    prop_oneof![
        54 => select(pool),
        8 => select(frags),
        8 => gen::edge_numeral(),
        15 => "\\PC{0,8}",
        15 => gen::name(fi, gen::NameProfile::Main),
    ]
    .boxed()
}

/// bounded-exhaustive: a valid one-atom judgement / task in which exactly ONE decoration field
/// (stamp, a truth entry, a budget entry, the punctuation) is replaced by each degenerate text
pub fn decoration_space() -> Vec<LN> {
    let mut out = vec![];
    for fi in 0..3 {
        let v = vocab(fi);
        let (pool, frags) = wild_texts(fi);
        let mut texts: Vec<String> = pool.into_iter().chain(frags).collect();
        for k in [1usize, 6, 7, 15, 16, 17, 24] {
            let z = "0".repeat(k);
            texts.extend([format!("1.{z}1"), format!("-0.{z}1"), format!("0.{}", "9".repeat(k)), format!("1.{z}")]);
        }
        texts.sort();
        texts.dedup();
        let punct = v.puncts.first().cloned().unwrap_or_default();
        let base = |stamp: &str, truth: Vec<String>, punct: &str| LS { term: LT::atom("", "a"), punct: punct.to_string(), stamp: stamp.to_string(), truth };
        let ok_truth = || vec!["1".to_string(), "0.9".to_string()];
        for t in &texts {
            let sentences = vec![
                base(t, ok_truth(), &punct),
                base(t, vec![], &punct),
                base("", vec![t.clone()], &punct),
                base("", vec![t.clone(), "0.9".into()], &punct),
                base("", vec!["1".into(), t.clone()], &punct),
                base("", ok_truth(), t),
            ];
            for s in sentences {
                out.push(LN::Sentence(s.clone()));
                out.push(LN::Task { budget: vec!["0.5".into()], s });
            }
            for budget in [vec![t.clone()], vec!["0.5".into(), t.clone()], vec!["0.5".into(), "0.5".into(), t.clone()]] {
                out.push(LN::Task { budget, s: base("", ok_truth(), &punct) });
            }
        }
    }
    out
}

pub fn wild_term(fi: usize) -> BoxedStrategy<LT> {
    let w = wild_string(fi);
    let leaf = (w.clone(), w.clone()).prop_map(|(p, n)| LT::Atom { prefix: p, name: n });
    let w2 = w.clone();
    leaf.prop_recursive(4, 20, 6, move |inner| {
        prop_oneof![
            40 => (w2.clone(), vec(inner.clone(), 0..=5)).prop_map(|(c, terms)| LT::Compound { connecter: c, terms }),
            20 => (w2.clone(), w2.clone(), vec(inner.clone(), 0..=4)).prop_map(|(l, r, terms)| LT::Set { left: l, terms, right: r }),
            40 => (w2.clone(), inner.clone(), inner).prop_map(|(c, s, p)| LT::Statement { copula: c, subject: Box::new(s), predicate: Box::new(p) }),
        ]
    })
    .boxed()
}

pub fn wild_value(fi: usize) -> BoxedStrategy<LN> {
    let w = wild_string(fi);
    let term = wild_term(fi);
    let sentence = (term.clone(), w.clone(), w.clone(), vec(w.clone(), 0..=5)).prop_map(|(term, punct, stamp, truth)| LS { term, punct, stamp, truth });
    prop_oneof![
        25 => term.prop_map(LN::Term),
        35 => sentence.clone().prop_map(LN::Sentence),
        40 => (vec(w, 0..=5), sentence).prop_map(|(budget, s)| LN::Task { budget, s }),
    ]
    .boxed()
}

/// near-valid values: an arity-valid value with a few fields overwritten by wild strings or
/// arities changed — most of them fold successfully, which is what C12 needs
pub fn near_valid_value(fi: usize) -> BoxedStrategy<LN> {
    let base = gen::narsese(gen::TermOpts { depth: 3, size: 14, ..gen::TermOpts::main(fi) });
    (base, gen::tape(), vec((any::<u16>(), wild_string(fi), 0u8..6), 0..=3))
        .prop_map(move |(nd, tape, edits)| {
            let mut v = lex_of_nd(fi, &nd, &tape);
            for (i, s, what) in edits {
                apply_wild_edit(&mut v, i as usize, &s, what);
            }
            v
        })
        .boxed()
}

fn nth_term_mut<'a>(t: &'a mut LT, n: &mut usize) -> Option<&'a mut LT> {
    if *n == 0 {
        return Some(t);
    }
    *n -= 1;
    match t {
        LT::Atom { .. } => None,
        LT::Compound { terms, .. } | LT::Set { terms, .. } => {
            for k in terms.iter_mut() {
                if let Some(x) = nth_term_mut(k, n) {
                    return Some(x);
                }
            }
            None
        }
        LT::Statement { subject, predicate, .. } => {
            if let Some(x) = nth_term_mut(subject, n) {
                return Some(x);
            }
            nth_term_mut(predicate, n)
        }
    }
}

fn count_terms(t: &LT) -> usize {
    match t {
        LT::Atom { .. } => 1,
        LT::Compound { terms, .. } | LT::Set { terms, .. } => 1 + terms.iter().map(count_terms).sum::<usize>(),
        LT::Statement { subject, predicate, .. } => 1 + count_terms(subject) + count_terms(predicate),
    }
}

fn apply_wild_edit(v: &mut LN, i: usize, s: &str, what: u8) {
    let (term, sentence, budget): (&mut LT, Option<(&mut String, &mut String, &mut Vec<String>)>, Option<&mut Vec<String>>) = match v {
        LN::Term(t) => (t, None, None),
        LN::Sentence(x) => (&mut x.term, Some((&mut x.punct, &mut x.stamp, &mut x.truth)), None),
        LN::Task { budget, s: x } => (&mut x.term, Some((&mut x.punct, &mut x.stamp, &mut x.truth)), Some(budget)),
    };
    match what {
        0 => {
            // overwrite a keyword / name somewhere in the term
            let total = count_terms(term);
            let mut n = i % total;
            if let Some(t) = nth_term_mut(term, &mut n) {
                match t {
                    LT::Atom { prefix, name } => {
                        if i % 2 == 0 { *name = s.to_string() } else { *prefix = s.to_string() }
                    }
                    LT::Compound { connecter, .. } => *connecter = s.to_string(),
                    LT::Set { left, .. } => *left = s.to_string(),
                    LT::Statement { copula, .. } => *copula = s.to_string(),
                }
            }
        }
        1 => {
            // change an arity: drop or duplicate a component
            let total = count_terms(term);
            let mut n = i % total;
            if let Some(LT::Compound { terms, .. } | LT::Set { terms, .. }) = nth_term_mut(term, &mut n) {
                if i % 3 == 0 {
                    terms.clear();
                } else if i % 3 == 1 && !terms.is_empty() {
                    terms.pop();
                } else if !terms.is_empty() {
                    let t = terms[0].clone();
                    terms.push(t);
                }
            }
        }
        2 => {
            if let Some((_, stamp, _)) = sentence {
                *stamp = s.to_string();
            }
        }
        3 => {
            if let Some((_, _, truth)) = sentence {
                if truth.is_empty() || i % 3 == 0 { truth.push(s.to_string()) } else { let k = i % truth.len(); truth[k] = s.to_string() }
            }
        }
        4 => {
            if let Some(b) = budget {
                if b.is_empty() || i % 3 == 0 { b.push(s.to_string()) } else { let k = i % b.len(); b[k] = s.to_string() }
            }
        }
        _ => {
            if let Some((punct, _, _)) = sentence {
                *punct = s.to_string();
            }
        }
    }
}
