//! API history. A property's check calls only the handful of entry points the property is
//! about; whatever ELSE a program called before (another format, the other parser, Typst, the
//! mutators, a failing parse, parse_multi with a broken input …) must not matter. One case in
//! eight — chosen by the case's fingerprint, so a failure replays — is therefore preceded by a
//! battery of unrelated calls on the same thread; which calls run is read off the fingerprint.
use crate::fmts;
use narsese::conversion::inter_type::lexical_fold::TryFoldInto;
use narsese::conversion::string::impl_enum::format_instances as ef;
use narsese::conversion::string::typst_formatter::FormatterTypst;
use narsese::api::GetTerm;
use narsese::enum_narsese::{Budget, Narsese, Term, Truth};
use std::hash::{Hash, Hasher};

const SAMPLES: [[&str; 3]; 3] = [
    ["$0.5;0.75;0.4$ <(*, {a}, $x, +7) --> ^op>. :|: %1.0;0.9%", "<a <-> a>?", "(/, r, _, [b, c])"],
    ["\\left<a \\rightarrow{} \\left\\{b\\right\\}\\right>. t=-5 \\langle{}1,0.9\\rangle{}", "\\left(\\times{}\\; a\\; b\\right)", "\\left<a \\Leftrightarrow{} b\\right>?"],
    ["预0.5、0.75算「（积，『a』，任一x）是操作op」。现在真1、0.9值", "「a似a」？", "（外像，r，某，【b，c】）"],
];
const BROKEN: [&str; 6] = ["<a --> ", "(*, a, ", "{{{{{{{{{{", "%1.5%", "$0.5;", "「a是"];

fn quiet<R>(f: impl FnOnce() -> R) {
    let _ = std::panic::catch_unwind(std::panic::AssertUnwindSafe(f));
}

pub fn run(k: u64) {
    let bit = |i: u32| (k >> (8 + i)) & 1 == 1;
    let fi = ((k >> 3) % 3) as usize;
    let gi = ((k >> 5) % 3) as usize;
    let e = fmts::e(fi);
    let l = fmts::l(fi);
    let text = SAMPLES[fi][((k >> 7) % 3) as usize];
    // a successful parse in each pipeline, formatting back, Typst
    quiet(|| {
        if let Ok(v) = e.parse::<Narsese>(text) {
            let _ = fmts::e(gi).format_narsese(&v);
            let term: &Term = match &v {
                Narsese::Term(t) => t,
                Narsese::Sentence(s) => s.get_term(),
                Narsese::Task(t) => t.get_term(),
            };
            if bit(0) {
                let _ = FormatterTypst.format(term);
            }
            if bit(1) {
                let mut h = std::collections::hash_map::DefaultHasher::new();
                term.hash(&mut h);
                let _ = h.finish();
                let _ = term == &term.clone();
            }
        }
    });
    quiet(|| {
        if let Ok(x) = l.parse(text) {
            let _ = fmts::l(gi).format_narsese(&x);
            if bit(2) {
                let _ = x.try_fold_into(fmts::e(fi));
            }
        }
    });
    // failing calls: error paths, parse_multi left with a broken input
    if bit(3) {
        let b = BROKEN[((k >> 20) % 6) as usize];
        quiet(|| {
            let _ = e.parse::<Narsese>(b).map_err(|err| err.to_string());
        });
        quiet(|| {
            let _ = l.parse(b).map_err(|err| err.to_string());
        });
        quiet(|| {
            let _ = e.parse_multi([b, text, b].into_iter()).len();
        });
    }
    // mutators and checked constructors
    if bit(4) {
        quiet(|| {
            let mut t = Term::new_set_extension(vec![Term::new_word("a"), Term::new_word("b")]);
            let _ = t.push_components(vec![Term::new_word("c")]);
            let mut i = Term::new_interval(3);
            let _ = i.set_atom_name("+0042");
            let _ = Truth::try_from_floats([1.0, 0.9, 7.0].into_iter());
            let _ = Budget::try_from_floats([0.5, 1.5].into_iter());
        });
    }
    // a by-value copy of another format, used once and dropped
    if bit(5) {
        quiet(|| {
            let other = match gi {
                0 => ef::FORMAT_ASCII,
                1 => ef::FORMAT_LATEX,
                _ => ef::FORMAT_HAN,
            };
            let _ = other.parse::<Narsese>(SAMPLES[gi][0]).is_ok();
        });
    }
}

/// which of the sample texts the two parsers accept (development aid, `nvh names`)
pub fn self_check() -> Vec<(usize, usize, bool, bool)> {
    let mut out = vec![];
    for fi in 0..3 {
        for j in 0..3 {
            out.push((fi, j, fmts::e(fi).parse::<Narsese>(SAMPLES[fi][j]).is_ok(), fmts::l(fi).parse(SAMPLES[fi][j]).is_ok()));
        }
    }
    out
}
