//! The two parsing pipelines (enum parser; lexical parser + fold) brought to canonical form.
use crate::desc::*;
use crate::engine::guard;
use crate::fmts;
use narsese::conversion::inter_type::lexical_fold::TryFoldInto;
use narsese::enum_narsese::Narsese;

#[derive(Clone, Debug, PartialEq)]
pub enum Out {
    Ok(CN),
    Err(String),
    Panic(String),
}
impl Out {
    pub fn short(&self) -> String {
        match self {
            Out::Ok(c) => format!("Ok({c:?})"),
            Out::Err(e) => format!("Err({e})"),
            Out::Panic(p) => format!("PANIC({p})"),
        }
    }
}

/// the enum parser on `s`; for half of the inputs (by a hash of `s`) the format value sits in a
/// reused slot that held another format a moment ago (see slots.rs)
pub fn enum_parse_raw(fi: usize, s: &str) -> Result<Result<Narsese, String>, String> {
    crate::slots::with_e(fi, crate::slots::key_of(s), |f| guard(|| f.parse::<Narsese>(s).map_err(|e| e.to_string())))
}

pub fn enum_parse(fi: usize, s: &str) -> Out {
    match enum_parse_raw(fi, s) {
        Err(p) => Out::Panic(p),
        Ok(Err(e)) => Out::Err(e),
        Ok(Ok(v)) => Out::Ok(canon_n(&v)),
    }
}

pub fn enum_parse_value(fi: usize, s: &str) -> Result<Narsese, String> {
    match enum_parse_raw(fi, s) {
        Err(p) => Err(format!("panic: {p}")),
        Ok(Err(e)) => Err(e),
        Ok(Ok(v)) => Ok(v),
    }
}

/// the lexical parser on `s` (same slot discipline)
pub fn lexical_parse_raw(fi: usize, s: &str) -> Result<Result<narsese::lexical::Narsese, String>, String> {
    crate::slots::with_l(fi, crate::slots::key_of(s), |l| guard(|| l.parse(s).map_err(|e| e.to_string())))
}

pub fn lexical_fold(fi: usize, s: &str) -> Out {
    let r = match lexical_parse_raw(fi, s) {
        Err(p) => Err(p),
        Ok(Err(e)) => Ok(Err(format!("lexical parse: {e}"))),
        Ok(Ok(x)) => guard(|| match x.try_fold_into(fmts::e(fi)) {
            Err(e) => Err(format!("fold: {e:?}")),
            Ok(v) => Ok(v),
        }),
    };
    match r {
        Err(p) => Out::Panic(p),
        Ok(Err(e)) => Out::Err(e),
        Ok(Ok(v)) => Out::Ok(canon_n(&v)),
    }
}
