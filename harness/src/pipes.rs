//! The two parsing pipelines (enum parser; lexical parser + fold) brought to canonical form.
use crate::desc::*;
use crate::engine::guard;
use crate::fmts;
use narsese::conversion::inter_type::lexical_fold::TryFoldInto;
use narsese::enum_narsese::Narsese;

#[derive(Clone, Debug, PartialEq)]
pub enum Out {
    Ok(CN),
    Err(String),
    Panic(String),
}
impl Out {
    pub fn short(&self) -> String {
        match self {
            Out::Ok(c) => format!("Ok({c:?})"),
            Out::Err(e) => format!("Err({e})"),
            Out::Panic(p) => format!("PANIC({p})"),
        }
    }
}

pub fn enum_parse(fi: usize, s: &str) -> Out {
    match guard(|| fmts::e(fi).parse::<Narsese>(s)) {
        Err(p) => Out::Panic(p),
        Ok(Err(e)) => Out::Err(e.to_string()),
        Ok(Ok(v)) => Out::Ok(canon_n(&v)),
    }
}

pub fn enum_parse_value(fi: usize, s: &str) -> Result<Narsese, String> {
    match guard(|| fmts::e(fi).parse::<Narsese>(s)) {
        Err(p) => Err(format!("panic: {p}")),
        Ok(Err(e)) => Err(e.to_string()),
        Ok(Ok(v)) => Ok(v),
    }
}

pub fn lexical_fold(fi: usize, s: &str) -> Out {
    let r = guard(|| match fmts::l(fi).parse(s) {
        Err(e) => Err(format!("lexical parse: {e}")),
        Ok(x) => match x.try_fold_into(fmts::e(fi)) {
            Err(e) => Err(format!("fold: {e:?}")),
            Ok(v) => Ok(v),
        },
    });
    match r {
        Err(p) => Out::Panic(p),
        Ok(Err(e)) => Out::Err(e),
        Ok(Ok(v)) => Out::Ok(canon_n(&v)),
    }
}
