//! C02 — lexical Narsese survives format-then-parse in every shipped lexical format.
use crate::desc::*;
use crate::engine::*;
use crate::fail;
use crate::fmts;
use crate::gen;
use crate::lexgen::*;
use proptest::prelude::*;
use serde_json::json;

pub type Case = (usize, LN);

pub fn check(sh: &Shared, c: &Case) -> Check {
    let (fi, x) = c;
    let fi = (*fi).min(2);
    sh.eval();
    let l = fmts::l(fi);
    sh.class(&format!("format/{}", fmts::FMT_NAMES[fi]));
    sh.class(&format!("kind/{}", x.kind_name()));
    let items = match x {
        LN::Term(_) => 0,
        LN::Sentence(s) => 1 + (!s.stamp.is_empty()) as usize + (!s.truth.is_empty()) as usize,
        LN::Task { s, .. } => 2 + (!s.stamp.is_empty()) as usize + (!s.truth.is_empty()) as usize,
    };
    let nontrivial = !x.term().is_atom() || items >= 2;
    let lex = x.to_lex();
    let s = match guard(|| l.format_narsese(&lex)) {
        Ok(s) => s,
        Err(p) => fail!("format:panic", "lexical format_narsese panicked: {p}"),
    };
    // every formatting entry point prints the same text
    {
        use narsese::api::FormatTo;
        use narsese::lexical::Narsese as LN2;
        let others = guard(|| match &lex {
            LN2::Term(t) => vec![l.format_term(t), l.format(t), t.format_to(l)],
            LN2::Sentence(x) => vec![l.format_sentence(x), l.format(x), x.format_to(l)],
            LN2::Task(x) => vec![l.format_task(x), l.format(x), x.format_to(l)],
        });
        match others {
            Err(p) => fail!("format:panic", "a lexical formatting entry point panicked: {p}"),
            Ok(v) => {
                if let Some(bad) = v.iter().find(|o| **o != s) {
                    fail!("format:entry-points-differ", "format_narsese = {s:?}\nanother entry point (format_<kind> / format(&x) / x.format_to) = {bad:?}\nvalue {x:?}");
                }
            }
        }
    }
    if nontrivial {
        sh.nontrivial(fp(c));
        sh.sample(&format!("{}/{}", fmts::FMT_NAMES[fi], x.kind_name()), || json!({"format": fmts::FMT_NAMES[fi], "text": s}));
    }
    match x {
        LN::Sentence(s) | LN::Task { s, .. } => {
            sh.class(&format!("truth-entries/{}", s.truth.len()));
            sh.class(if s.stamp.is_empty() { "stamp/empty" } else { "stamp/present" });
        }
        _ => {}
    }
    if let LN::Task { budget, .. } = x {
        sh.class(&format!("budget-entries/{}", budget.len()));
    }
    match crate::pipes::lexical_parse_raw(fi, &s) {
        Err(p) => fail!("parse:panic", "text {s:?}\npanic {p}"),
        Ok(Err(e)) => fail!("roundtrip:err", "text {s:?}\nerror {e}\nvalue {x:?}"),
        Ok(Ok(back)) => {
            if back != lex {
                fail!("roundtrip:value", "text {s:?}\nexpected {:?}\ngot      {:?}", x, LN::from_lex(&back));
            }
        }
    }
    Ok(())
}

pub fn strategy() -> BoxedStrategy<Case> {
    gen::fmt_and(|fi| vocab_value(fi, gen::NameProfile::Main))
}

/// all present/absent combinations of the five items × what the term ends with × format
pub fn small_scope() -> Vec<Case> {
    let mut out = vec![];
    for fi in 0..3 {
        let v = vocab(fi);
        let ph = fmts::e(fi).atom.prefix_placeholder.to_string();
        let mut tails: Vec<LT> = vec![LT::atom("", "a"), LT::atom("", "a1"), LT::atom("", "1"), LT::atom("", "a-b"), LT::atom(&ph, "")];
        for p in &v.prefixes {
            if !p.is_empty() && *p != ph {
                tails.push(LT::atom(p, "x"));
                tails.push(LT::atom(p, "1"));
            }
        }
        for c in &v.connecters {
            tails.push(LT::Compound { connecter: c.clone(), terms: vec![LT::atom("", "a")] });
            tails.push(LT::Compound { connecter: c.clone(), terms: vec![LT::atom("", "a"), LT::atom("", "b"), LT::atom("", "c")] });
        }
        for (l, r) in &v.set_brackets {
            tails.push(LT::Set { left: l.clone(), terms: vec![LT::atom("", "a"), LT::atom("", "7")], right: r.clone() });
        }
        for c in &v.copulas {
            tails.push(LT::Statement { copula: c.clone(), subject: Box::new(LT::atom("", "a")), predicate: Box::new(LT::atom("", "b")) });
            tails.push(LT::Statement { copula: c.clone(), subject: Box::new(LT::atom(&ph, "")), predicate: Box::new(LT::atom("", "7")) });
        }
        let mut stamps: Vec<String> = vec![String::new()];
        for (l, r) in &v.stamp_forms {
            if l.is_empty() {
                stamps.push(r.clone());
            } else {
                stamps.push(format!("{l}5{r}"));
                stamps.push(format!("{l}-17{r}"));
            }
        }
        let truths: Vec<Vec<String>> = vec![vec![], vec!["1".into()], vec!["0.5".into(), "0.9".into()], vec![".".into(), "1.2.3".into(), "7".into()]];
        let budgets: Vec<Vec<String>> = vec![vec![], vec!["0.5".into()], vec!["1".into(), "0".into(), ".9".into(), "3".into()]];
        for t in &tails {
            out.push((fi, LN::Term(t.clone())));
            for p in &v.puncts {
                for st in &stamps {
                    for tr in &truths {
                        let s = LS { term: t.clone(), punct: p.clone(), stamp: st.clone(), truth: tr.clone() };
                        out.push((fi, LN::Sentence(s.clone())));
                        for b in &budgets {
                            out.push((fi, LN::Task { budget: b.clone(), s: s.clone() }));
                        }
                    }
                }
            }
        }
    }
    out
}

pub fn very_deep() -> BoxedStrategy<Case> {
    crate::props::c01::very_deep_to(400).prop_map(|(fi, nd)| (fi, lex_of_nd(fi, &nd, &[]))).boxed()
}

pub fn streams() -> Vec<Box<dyn AnyStream>> {
    vec![
        // lexical mirrors of C01's constructor-inside-constructor enumeration
        Box::new(Stream::<Case> {
            name: "nested-pairs",
            quick: 0,
            thorough: 0,
            source: Source::Enum(Box::new(|_| Box::new(crate::props::c01::nested_pairs().into_iter().map(|(fi, nd)| (fi, crate::lexgen::lex_of_nd(fi, &nd, &[])))))),
            check: Box::new(check),
        }),
        Box::new(Stream::<Case> {
            name: "small-scope",
            quick: 0,
            thorough: 0,
            source: Source::Enum(Box::new(|_| Box::new(small_scope().into_iter()))),
            check: Box::new(check),
        }),
        Box::new(Stream::<Case> {
            name: "very-deep",
            quick: 100,
            thorough: 3_000,
            source: Source::Gen(Box::new(very_deep)),
            check: Box::new(check),
        }),
        Box::new(Stream::<Case> {
            name: "roundtrip",
            quick: 40_000,
            thorough: 4_000_000,
            source: Source::Gen(Box::new(strategy)),
            check: Box::new(check),
        }),
    ]
}

pub const PROP: Prop = Prop {
    id: "C02",
    rule: "cases = (lexical format, vocabulary-consistent lexical term/sentence/task): prefixes, connecters, set brackets, copulas, punctuations and stamp forms are read from the lexical format's own dictionaries; any connecter with 1..5 components, any nesting, 0..4 truth and 0..5 budget entries from [0-9.]+ (incl. '.', '1.2.3', '00'), fixed stamps with optional sign and up to 30 digits; names as in C01; plus an enumeration of every item present/absent combination × every kind of term tail; oracle: parse(format(x)) == Ok(x) structurally; non-trivial = the term is not an atom or ≥ 2 sentence items are present; distinct = fingerprint of (format, value)",
    assumptions: &[
        "compounds and sets have at least one component (README grammar and both parsers require it)",
        "non-placeholder atoms have a non-empty name; names may contain inner '_' / '-' (the property's C11 name domain) although '-' and '_' are also one-character keywords",
    ],
    streams,
};
