//! C17 — term mutators change exactly what they say, or fail and change nothing.
use crate::desc::*;
use crate::engine::*;
use crate::fail;
use crate::gen;
use proptest::collection::vec;
use proptest::prelude::*;
use proptest::sample::select;
use serde::{Deserialize, Serialize};
use serde_json::json;

#[derive(Clone, Debug, Serialize, Deserialize)]
pub struct Case {
    pub d: D,
    pub how: u8,
    pub new_name: String,
    pub extra: Vec<D>,
}

/// reference: does `s` denote an unsigned decimal integer that fits the machine word?
/// (optional leading '+', ASCII digits only, compared as a decimal string — no parsing)
fn model_interval(s: &str) -> Option<usize> {
    let digits = s.strip_prefix('+').unwrap_or(s);
    if digits.is_empty() || !digits.bytes().all(|b| b.is_ascii_digit()) {
        return None;
    }
    let trimmed = digits.trim_start_matches('0');
    let max = usize::MAX.to_string();
    if trimmed.len() > max.len() || (trimmed.len() == max.len() && trimmed > max.as_str()) {
        return None;
    }
    let mut v: usize = 0;
    for b in trimmed.bytes() {
        v = v * 10 + (b - b'0') as usize;
    }
    Some(v)
}

pub fn check(sh: &Shared, c: &Case) -> Check {
    if !c.d.arity_ok() || !c.extra.iter().all(|e| e.arity_ok()) {
        fail!("harness/bad-case", "description violates arity");
    }
    let build = |d: &D| if c.how == 0 { build_raw(d) } else { build_ctor(d) };
    let before = canon_d(&c.d);
    sh.class(&format!("kind/{:?}", c.d.k));
    // ---- set_atom_name
    sh.eval();
    let mut t = build(&c.d);
    let r = guard(|| t.set_atom_name(&c.new_name).map_err(|e| e.to_string()));
    let r = match r {
        Ok(r) => r,
        Err(p) => fail!("rename:panic", "set_atom_name({:?}) panicked on {:?}: {p}", c.new_name, c.d),
    };
    let after = canon_t(&t);
    let name_after = guard(|| t.get_atom_name()).map_err(|p| Failure::new("get_atom_name:panic", p))?;
    if c.d.k.is_named_atom() {
        sh.class("rename/named-atom");
        if r.is_err() {
            fail!("rename:named-rejected", "set_atom_name({:?}) failed on a {:?}", c.new_name, c.d.k);
        }
        if name_after.as_deref() != Some(c.new_name.as_str()) {
            fail!("rename:not-verbatim", "{:?}: set_atom_name({:?}) then get_atom_name() = {name_after:?}", c.d.k, c.new_name);
        }
        let mut want = c.d.clone();
        want.name = c.new_name.clone();
        if after != canon_d(&want) {
            fail!("rename:wrong-post-state", "after renaming {:?} to {:?}: {after:?}", c.d, c.new_name);
        }
    } else if c.d.k == Interval {
        let m = model_interval(&c.new_name);
        sh.class(if m.is_some() { "rename/interval-accept" } else { "rename/interval-reject" });
        match (m, r.is_ok()) {
            (Some(v), true) => {
                if after != canon_d(&D::interval(v)) {
                    fail!("rename:interval-value", "interval renamed to {:?} holds {after:?}, expected {v}", c.new_name);
                }
                if name_after != Some(v.to_string()) {
                    fail!("rename:interval-name", "get_atom_name() = {name_after:?} after setting {:?}", c.new_name);
                }
            }
            (None, false) => {
                if after != before {
                    fail!("rename:err-but-changed", "set_atom_name({:?}) failed but the interval changed: {after:?}", c.new_name);
                }
            }
            (Some(v), false) => fail!("rename:interval-rejected", "set_atom_name({:?}) failed, but it denotes {v}", c.new_name),
            (None, true) => fail!("rename:interval-accepted-garbage", "set_atom_name({:?}) succeeded on an interval; now {after:?}", c.new_name),
        }
    } else if c.d.k == Placeholder {
        sh.class("rename/placeholder");
        if r.is_err() || after != before {
            fail!("rename:placeholder", "set_atom_name on a placeholder: ok={} after={after:?}", r.is_ok());
        }
        if name_after.as_deref() != Some("") {
            fail!("rename:placeholder-name", "placeholder name = {name_after:?}");
        }
    } else {
        sh.class("rename/non-atom");
        if r.is_ok() {
            fail!("rename:non-atom-accepted", "set_atom_name({:?}) succeeded on {:?}", c.new_name, c.d.k);
        }
        if after != before {
            fail!("rename:err-but-changed", "set_atom_name failed on {:?} but the term changed", c.d.k);
        }
        if name_after.is_some() {
            fail!("get_atom_name:non-atom", "get_atom_name() of {:?} = {name_after:?}", c.d.k);
        }
    }
    // ---- push_components
    sh.eval();
    let mut t = build(&c.d);
    let extra: Vec<_> = c.extra.iter().map(|e| build(e)).collect();
    // the component list arrives through different kinds of iterators (exact-size Vec, filtered,
    // generated): the outcome must not depend on that
    let r = match c.new_name.len() % 3 {
        0 => guard(|| t.push_components(extra).map_err(|e| e.to_string())),
        1 => guard(|| t.push_components(extra.into_iter().filter(|_| true)).map_err(|e| e.to_string())),
        _ => {
            let mut it = extra.into_iter();
            guard(|| t.push_components(std::iter::from_fn(move || it.next())).map_err(|e| e.to_string()))
        }
    };
    let r = match r {
        Ok(r) => r,
        Err(p) => fail!("push:panic", "push_components panicked on {:?}: {p}", c.d),
    };
    let after = canon_t(&t);
    if c.d.k.is_multi() {
        sh.class(if c.d.k.is_set_like() { "push/unordered" } else { "push/ordered" });
        sh.nontrivial(fp(c));
        sh.sample(&format!("push/{:?}", c.d.k), || json!({"term": c.d, "append": c.extra}));
        if let Err(e) = r {
            fail!("push:multi-rejected", "push_components failed on {:?}: {e}", c.d.k);
        }
        let mut want = c.d.clone();
        want.kids.extend(c.extra.iter().cloned());
        if after != canon_d(&want) {
            fail!("push:wrong-post-state", "term {:?}\nappend {:?}\nafter  {after:?}\nexpected {:?}", c.d, c.extra, canon_d(&want));
        }
    } else {
        sh.class("push/fixed-arity");
        if !c.d.k.is_atom() {
            sh.nontrivial(fp(c));
        }
        if r.is_ok() {
            fail!("push:fixed-accepted", "push_components succeeded on {:?}", c.d.k);
        }
        if after != before {
            fail!("push:err-but-changed", "push_components failed on {:?} but the term changed: {after:?}", c.d.k);
        }
    }
    Ok(())
}

#[derive(Clone, Debug, Serialize, Deserialize)]
pub enum Op {
    Rename(String),
    Push(Vec<D>),
}

#[derive(Clone, Debug, Serialize, Deserialize)]
pub struct SeqCase {
    pub d: D,
    pub how: u8,
    pub ops: Vec<Op>,
}

/// reference model of one mutator call on a description: Ok(new description) or Err (unchanged)
fn model_step(d: &D, op: &Op) -> Result<D, ()> {
    match op {
        Op::Rename(n) => {
            if d.k.is_named_atom() {
                let mut x = d.clone();
                x.name = n.clone();
                Ok(x)
            } else if d.k == Interval {
                model_interval(n).map(D::interval).ok_or(())
            } else if d.k == Placeholder {
                Ok(d.clone())
            } else {
                Err(())
            }
        }
        Op::Push(extra) => {
            if d.k.is_multi() {
                let mut x = d.clone();
                x.kids.extend(extra.iter().cloned());
                Ok(x)
            } else {
                Err(())
            }
        }
    }
}

/// a history of mutator calls on ONE term instance; after every step the instance must equal
/// the model's state (a failed call leaves it unchanged)
pub fn check_sequence(sh: &Shared, c: &SeqCase) -> Check {
    if !c.d.arity_ok() {
        fail!("harness/bad-case", "description violates arity");
    }
    let mut t = if c.how == 0 { build_raw(&c.d) } else { build_ctor(&c.d) };
    let mut model = c.d.clone();
    sh.class(&format!("seq/len{}", c.ops.len()));
    if c.ops.len() >= 2 {
        sh.nontrivial(fp(c));
        sh.sample(&format!("sequence/{:?}", c.d.k), || json!(c));
    }
    for (i, op) in c.ops.iter().enumerate() {
        sh.eval();
        let expected = model_step(&model, op);
        let got: Result<Result<(), String>, String> = match op {
            Op::Rename(n) => guard(|| t.set_atom_name(n).map_err(|e| e.to_string())),
            Op::Push(extra) => {
                let items: Vec<_> = extra.iter().map(build_raw).collect();
                guard(|| t.push_components(items).map_err(|e| e.to_string()))
            }
        };
        let got = match got {
            Ok(r) => r,
            Err(p) => fail!("sequence:panic", "step {i} ({op:?}) panicked: {p}\nstart {:?}", c.d),
        };
        if got.is_ok() != expected.is_ok() {
            fail!("sequence:outcome", "step {i}: {op:?} on {:?} returned {} but the model says {}\nstart {:?}\nops {:?}", model.k, if got.is_ok() { "Ok" } else { "Err" }, if expected.is_ok() { "Ok" } else { "Err" }, c.d, c.ops);
        }
        if let Ok(next) = expected {
            model = next;
        }
        if canon_t(&t) != canon_d(&model) {
            fail!("sequence:state", "after step {i} ({op:?}) the term is {:?}\nmodel {:?}\nstart {:?}\nops {:?}", canon_t(&t), canon_d(&model), c.d, c.ops);
        }
    }
    Ok(())
}

pub fn name_pool() -> Vec<&'static str> {
    vec![
        "", "7", "+7", "007", "+007", "-0", "-7", " 7", "7 ", "７", "٣", "1e3", "0x10", "1_000", "++7", "+", "-", "abc", "a b", "18446744073709551615", "18446744073709551616", "+18446744073709551615",
        "0000000000000000000000000000000000000007", "9999999999999999999999999999999999999999", "0", "+0", "1.0", "🔥", "_", "$x",
        "00000000000000000000000000000000000000005", "+000000000000000000000000000000000000000000000000000000000000000018446744073709551615", "000000000000000000000000000000000000000000000000000000000000000018446744073709551616",
        // names that look like they carry a surface prefix / padding: must be stored verbatim
        "^left", "^", "^^x", "#x", "?x", "+x", "_x", "-x", "x-", " x", "x ", "\t", "a\nb", "\\$x", "任一x", "操作x", "某", "\\Uparrow{}x", "<a --> b>", "a.b", "%1%",
    ]
}

pub fn strategy() -> BoxedStrategy<Case> {
    let o = gen::TermOpts { depth: 2, size: 8, ..gen::TermOpts::main(0) };
    let root = prop_oneof![60 => gen::term(o), 40 => gen::atom(o)];
    let nm = prop_oneof![
        60 => select(name_pool()).prop_map(|s| s.to_string()),
        15 => "\\PC{0,6}",
        10 => vec(select("0123456789".chars().collect::<Vec<_>>()), 1..=24).prop_map(|v| v.into_iter().collect::<String>()),
        // a value that fits, written with any number of leading zeros (total length up to ≈ 320)
        8 => (gen::interval_value(), prop_oneof![0usize..=8, 9usize..=45, 46usize..=300], any::<bool>()).prop_map(|(v, zeros, plus)| format!("{}{}{v}", if plus { "+" } else { "" }, "0".repeat(zeros))),
        10 => gen::name(0, gen::NameProfile::Main),
        10 => (select(vec!["^", "$", "#", "?", "+", "_", "-", " ", "任一", "操作", "\\$", "\\Uparrow{}"]), gen::name(0, gen::NameProfile::Main)).prop_map(|(p, n)| format!("{p}{n}")),
    ];
    (root, 0u8..2, nm, vec(gen::term(gen::TermOpts { depth: 1, size: 4, ..o }), 0..=3), any::<u8>())
        .prop_map(|(d, how, new_name, mut extra, dup)| {
            // sometimes append a duplicate of an existing component
            if dup % 3 == 0 && !d.kids.is_empty() {
                let mut k = d.kids[(dup as usize / 3) % d.kids.len()].clone();
                // a symmetric statement is appended mirrored: the same element for an unordered compound
                if k.k.is_sym_statement() && dup % 2 == 0 {
                    k.kids.swap(0, 1);
                }
                extra.push(k);
            }
            // … or a copy of the receiver itself / a compound that contains one
            if dup % 7 == 1 {
                extra.push(d.clone());
            } else if dup % 7 == 2 {
                extra.insert(0, D::node(Product, vec![D::word("in"), d.clone()]));
            }
            Case { d, how, new_name, extra }
        })
        .boxed()
}

pub fn strategy_sequence() -> BoxedStrategy<SeqCase> {
    let o = gen::TermOpts { depth: 2, size: 6, ..gen::TermOpts::main(0) };
    let root = prop_oneof![55 => gen::term(o), 45 => gen::atom(o)];
    let nm = prop_oneof![
        60 => select(name_pool()).prop_map(|s| s.to_string()),
        40 => gen::name(0, gen::NameProfile::Main),
    ];
    let op = prop_oneof![
        45 => nm.prop_map(Op::Rename),
        55 => vec(gen::term(gen::TermOpts { depth: 1, size: 3, ..o }), 0..=2).prop_map(Op::Push),
    ];
    (root, 0u8..2, vec(op, 1..=6)).prop_map(|(d, how, ops)| SeqCase { d, how, ops }).boxed()
}

pub fn small_scope() -> Vec<Case> {
    let mut out = vec![];
    let a = D::word("a");
    let b = D::atom(IVar, "b");
    let mut roots: Vec<D> = vec![D::word("w"), D::atom(IVar, "w"), D::atom(DVar, "w"), D::atom(QVar, "w"), D::atom(Op, "w"), D::interval(5), D::placeholder()];
    for k in ALL_KINDS {
        if k.is_atom() {
            continue;
        }
        if k == Neg {
            roots.push(D::node(k, vec![a.clone()]));
        } else if k.is_binary_ordered() || k.is_sym_statement() {
            roots.push(D::node(k, vec![a.clone(), b.clone()]));
        } else if k.is_image() {
            for i in 0..=2 {
                roots.push(D::image(k, i, vec![a.clone(), b.clone()]));
            }
        } else {
            roots.push(D::node(k, vec![a.clone(), b.clone()]));
            roots.push(D::node(k, vec![a.clone()]));
        }
    }
    let extras: Vec<Vec<D>> = vec![vec![], vec![D::word("c")], vec![a.clone()], vec![D::word("c"), a.clone(), D::word("c")], vec![D::placeholder()]];
    for r in &roots {
        for n in name_pool() {
            for how in 0..2 {
                out.push(Case { d: r.clone(), how, new_name: n.to_string(), extra: vec![] });
            }
        }
        for e in &extras {
            for how in 0..2 {
                out.push(Case { d: r.clone(), how, new_name: "x".into(), extra: e.clone() });
            }
        }
        // the appended list refers to the receiver itself: a copy of it, and a compound around a copy
        for how in 0..2 {
            out.push(Case { d: r.clone(), how, new_name: "x".into(), extra: vec![r.clone()] });
            out.push(Case { d: r.clone(), how, new_name: "x".into(), extra: vec![D::word("c"), D::node(Product, vec![r.clone(), a.clone()])] });
        }
    }
    out
}

pub fn streams() -> Vec<Box<dyn AnyStream>> {
    vec![
        Box::new(Stream::<Case> {
            name: "small-scope",
            quick: 0,
            thorough: 0,
            source: Source::Enum(Box::new(|_| Box::new(small_scope().into_iter()))),
            check: Box::new(check),
        }),
        Box::new(Stream::<SeqCase> {
            name: "sequences",
            quick: 30_000,
            thorough: 2_000_000,
            source: Source::Gen(Box::new(strategy_sequence)),
            check: Box::new(check_sequence),
        }),
        Box::new(Stream::<Case> {
            name: "mutations",
            quick: 60_000,
            thorough: 5_000_000,
            source: Source::Gen(Box::new(strategy)),
            check: Box::new(check),
        }),
    ]
}

pub const PROP: Prop = Prop {
    id: "C17",
    rule: "cases = (term description, build route, new name, list of 0..4 components incl. duplicates of existing ones, mirrored symmetric statements and copies of the receiver itself); names from a pool of edge strings ('', '+7', '007', '-0', ' 7', full-width and Arabic digits, '1e3', usize::MAX, usize::MAX+1, 40-digit strings) ∪ arbitrary Unicode ∪ long digit strings; oracle: a reference model on descriptions (rename verbatim for the five named atoms; interval accepts exactly ^\\+?[0-9]+$ with value ≤ usize::MAX by decimal-string comparison; placeholder Ok/unchanged; others Err/unchanged; push appends in order to ordered compounds (image index untouched), unites into unordered ones, Err/unchanged for atoms, negation, differences, statements); plus constructor × name-pool × append-list enumeration; stream sequences applies 1..6 mutator calls to ONE instance and compares with the model after every step; evaluations count mutator calls; non-trivial = push on a non-atom; distinct = fingerprint of the case",
    assumptions: &["canonical form as in C01 is used to compare pre/post states"],
    streams,
};
