//! C04 — the enum parser is total on bounded inputs (7 entry points × 3 formats).
use crate::desc::*;
use crate::engine::*;
use crate::fail;
use crate::fmts;
use crate::gen;
use crate::strgen;
use narsese::enum_narsese::{Budget, Narsese, Punctuation, Stamp, Truth};
use proptest::collection::vec;
use proptest::prelude::*;
use serde::{Deserialize, Serialize};
use serde_json::json;

#[derive(Clone, Debug, Serialize, Deserialize)]
pub struct Case {
    pub fi: usize,
    pub class: String,
    pub s: String,
    /// split points (fractions) used for the multi-input entry point
    pub splits: Vec<u16>,
}

fn show<E: std::fmt::Display>(entry: &str, s: &str, r: Result<Result<(), E>, String>) -> Check {
    match r {
        Err(p) => Err(Failure::new(format!("panic:{entry}"), format!("entry {entry}\ninput {s:?}\npanic {p}"))),
        Ok(Ok(())) => Ok(()),
        Ok(Err(e)) => match guard(|| e.to_string()) {
            Ok(_) => Ok(()),
            Err(p) => Err(Failure::new(format!("panic:display:{entry}"), format!("entry {entry}\ninput {s:?}\nDisplay of the error panicked: {p}"))),
        },
    }
}

pub fn split_input(s: &str, splits: &[u16]) -> Vec<String> {
    let chars: Vec<char> = s.chars().collect();
    let mut cuts: Vec<usize> = splits.iter().map(|f| ((*f as usize) * (chars.len() + 1)) >> 16).collect();
    cuts.sort();
    let mut out = vec![];
    let mut last = 0;
    for c in cuts {
        out.push(chars[last..c].iter().collect::<String>());
        last = c;
    }
    out.push(chars[last..].iter().collect::<String>());
    out
}

pub fn in_bounds(fi: usize, s: &str) -> bool {
    strgen::clip(fi, s) == s
}

pub fn check(sh: &Shared, c: &Case) -> Check {
    let fi = c.fi.min(2);
    if !in_bounds(fi, &c.s) {
        fail!("harness/bad-case", "input exceeds the bounds of the property (512 chars / 64 opening brackets)");
    }
    let f = fmts::e(fi);
    let s = c.s.as_str();
    sh.watch(|| json!({"stream": "strings", "case": c}));
    sh.evals(7);
    sh.class(&format!("source/{}", c.class));
    sh.class(&format!("format/{}", fmts::FMT_NAMES[fi]));
    if strgen::touches_syntax(fi, s) {
        sh.nontrivial(fp(&(fi, s)));
        sh.sample(&format!("{}/{}", c.class, fmts::FMT_NAMES[fi]), || json!({"format": fmts::FMT_NAMES[fi], "input": s}));
    } else {
        sh.class("trivial/no-keyword");
    }
    let r = guard(|| f.parse::<Narsese>(s));
    match &r {
        Ok(Ok(_)) => sh.class("outcome/narsese/ok"),
        Ok(Err(_)) => sh.class("outcome/narsese/err"),
        Err(_) => {}
    }
    show("parse<Narsese>", s, r.map(|x| x.map(|_| ())))?;
    show("parse_chars", s, guard(|| f.parse_chars::<Narsese>(s.chars().collect())).map(|x| x.map(|_| ())))?;
    let parts = split_input(s, &c.splits);
    let multi = guard(|| f.parse_multi(parts.iter().map(|p| p.as_str())));
    match multi {
        Err(p) => fail!("panic:parse_multi", "entry parse_multi\ninputs {parts:?}\npanic {p}"),
        Ok(results) => {
            if results.len() != parts.len() {
                fail!("parse_multi:count", "parse_multi returned {} results for {} inputs", results.len(), parts.len());
            }
            for r in results {
                show("parse_multi", s, Ok(r.map(|_| ())))?;
            }
        }
    }
    let rt = guard(|| f.parse::<Truth>(s));
    if matches!(rt, Ok(Ok(_))) {
        sh.class("outcome/truth/ok");
    }
    show("parse<Truth>", s, rt.map(|x| x.map(|_| ())))?;
    let rb = guard(|| f.parse::<Budget>(s));
    if matches!(rb, Ok(Ok(_))) {
        sh.class("outcome/budget/ok");
    }
    show("parse<Budget>", s, rb.map(|x| x.map(|_| ())))?;
    let rs = guard(|| f.parse::<Stamp>(s));
    if matches!(rs, Ok(Ok(_))) {
        sh.class("outcome/stamp/ok");
    }
    show("parse<Stamp>", s, rs.map(|x| x.map(|_| ())))?;
    let rp = guard(|| f.parse::<Punctuation>(s));
    if matches!(rp, Ok(Ok(_))) {
        sh.class("outcome/punctuation/ok");
    }
    show("parse<Punctuation>", s, rp.map(|x| x.map(|_| ())))?;
    // one input in 32 again in other calling contexts (a destructor during unwinding, a
    // thread-local destructor at thread exit) and through a format value at a reused address
    if !is_fuzz_mode() && crate::slots::key_of(s) % 32 == 0 {
        let here = (guard(|| f.parse::<Narsese>(s).is_ok()).ok(), guard(|| f.parse::<Truth>(s).is_ok()).ok());
        for ctx in crate::contexts::ALL {
            sh.evals(2);
            sh.class(&format!("context/{ctx:?}"));
            let s2 = s.to_string();
            let got = crate::contexts::run_in(ctx, move || {
                let f = fmts::e(fi);
                (guard(|| f.parse::<Narsese>(&s2).is_ok()).ok(), guard(|| f.parse::<Truth>(&s2).is_ok()).ok())
            });
            let Ok(got) = got else {
                sh.class("inconclusive/context-thread-not-started");
                continue;
            };
            match got {
                None => fail!("context:thread-died", "input {s:?}: the thread parsing inside {ctx:?} died"),
                Some(g) if g != here => fail!("context:outcome-differs", "input {s:?}\n(parse<Narsese> ok, parse<Truth> ok) here = {here:?}, inside {ctx:?} = {g:?} (None = panic)"),
                _ => {}
            }
        }
        let slot = crate::slots::with_e(fi, 2 + (crate::slots::key_of(s) >> 5) % 2, |f| guard(|| f.parse::<Narsese>(s).is_ok()).ok());
        if slot != here.0 {
            fail!("format-address:outcome-differs", "input {s:?}\nparse<Narsese> ok through the static table = {:?}, through the same format at an address another format used before = {slot:?}", here.0);
        }
    }
    sh.unwatch();
    Ok(())
}

/// fragments that target the stand-alone truth / budget / stamp / punctuation parsers
fn side_door(fi: usize) -> BoxedStrategy<(String, String)> {
    let f = fmts::e(fi);
    let v = gen::task_with(gen::atom(gen::TermOpts::main(fi)));
    (v, 0u8..4, vec((any::<u16>(), any::<u8>()), 0..3))
        .prop_map(move |(t, which, edits)| {
            let task = build_task(&t);
            let sen = &task.0;
            let mut s = match which {
                0 => f.format_truth(&build_truth(&t.s.truth)),
                1 => f.format_budget(&task.1),
                2 => f.format_stamp(&build_stamp(t.s.stamp)),
                _ => f.format_punctuation(&build_punct(t.s.punct)),
            };
            let _ = sen;
            for (p, e) in edits {
                let mut c: Vec<char> = s.chars().collect();
                let i = ((p as usize) * (c.len() + 1)) >> 16;
                match e % 9 {
                    0 => {
                        if i < c.len() {
                            c.remove(i);
                        }
                    }
                    1 => c.insert(i, ' '),
                    2 => c.insert(i, '9'),
                    3 => c.insert(i, '.'),
                    4 => c.truncate(i),
                    5 => c.insert(i, '-'),
                    6 => c.insert(i, '٣'),
                    7 => c.insert(i, '\t'),
                    _ => c.insert(i, '１'),
                }
                s = c.into_iter().collect();
            }
            ("side-door".to_string(), strgen::clip(fi, &s))
        })
        .boxed()
}

pub fn strategy() -> BoxedStrategy<Case> {
    gen::fmt_and(|fi| {
        (prop_oneof![88 => strgen::any_string(fi), 12 => side_door(fi)], vec(any::<u16>(), 0..=3)).boxed()
    })
    .prop_map(|(fi, ((class, s), splits))| Case { fi, class, s, splits })
    .boxed()
}

pub fn streams() -> Vec<Box<dyn AnyStream>> {
    vec![
        Box::new(Stream::<Case> {
            name: "token-sequences",
            quick: 0,
            thorough: 0,
            source: Source::Enum(Box::new(|tier| Box::new(strgen::token_space(tier == Tier::Thorough).map(|(fi, s)| Case { fi, class: "tokens".into(), s, splits: vec![21845, 43690] })))),
            check: Box::new(check),
        }),
        Box::new(Stream::<Case> {
        name: "strings",
        quick: 60_000,
        thorough: 4_000_000,
        source: Source::Gen(Box::new(strategy)),
        check: Box::new(check),
    })]
}

pub const PROP: Prop = Prop {
    id: "C04",
    rule: "cases = (format, string ≤ 512 chars with ≤ 64 opening brackets, split points) from keyword soup / mutations of valid printed values / deep unterminated nests / arbitrary Unicode / valid values / mutated truth-budget-stamp-punctuation fragments; each case is run through all 7 entry points (evaluations counts entry-point calls); non-trivial = the string contains at least one keyword of the format; distinct = fingerprint of (format, string)",
    assumptions: &[
        "a panic is observed through catch_unwind with the default unwinding runtime; abort/stack overflow would kill the process and is reported by ./check",
        "bounded time is approximated by a 20 s per-case watchdog confirmed in an isolated child process (60 s)",
    ],
    streams,
};
