//! C09 — whitespace between tokens never changes what is parsed.
use crate::desc::*;
use crate::engine::*;
use crate::fail;
use crate::fmts;
use crate::gen;
use crate::pipes::*;
use crate::printer::{self, Style, Token};
use narsese::enum_narsese::Narsese;
use proptest::prelude::*;
use serde::{Deserialize, Serialize};
use serde_json::json;

#[derive(Clone, Debug, Serialize, Deserialize)]
pub struct Case {
    pub fi: usize,
    pub v: ND,
    /// per-boundary choice bytes (cyclic); mapped to 0,0,0,1,1,1,2,5 spaces
    pub gaps: Vec<u8>,
    /// which Unicode whitespace the lexical pipeline gets (cyclic)
    pub fills: Vec<u8>,
}

const K: [usize; 8] = [0, 0, 0, 1, 1, 1, 2, 5];
/// every Unicode White_Space code point ("the lexical parser additionally ignores every Unicode
/// whitespace character"): the 25 characters for which `char::is_whitespace` holds, computed here
fn blank_chars() -> &'static [char] {
    static F: std::sync::OnceLock<Vec<char>> = std::sync::OnceLock::new();
    F.get_or_init(|| (0u32..=0x3000).filter_map(char::from_u32).filter(|c| c.is_whitespace()).collect())
}

fn expect(sig: &str, what: &str, text: &str, got: &Out, expected: &CN) -> Check {
    match got {
        Out::Ok(c) if c == expected => Ok(()),
        Out::Ok(c) => Err(Failure::new(format!("{sig}:value"), format!("{what}\ntext {text:?}\ngot      {c:?}\nexpected {expected:?}"))),
        Out::Err(e) => Err(Failure::new(format!("{sig}:err"), format!("{what}\ntext {text:?}\nerror {e}\nexpected {expected:?}"))),
        Out::Panic(p) => Err(Failure::new(format!("{sig}:panic"), format!("{what}\ntext {text:?}\npanic {p}"))),
    }
}

fn macro_path(fi: usize, text: &str) -> Out {
    // what enum_nse! does at run time: strip all whitespace, parse_chars
    let chars: Vec<char> = text.chars().filter(|c| !c.is_whitespace()).collect();
    match guard(|| fmts::e(fi).parse_chars::<Narsese>(chars)) {
        Err(p) => Out::Panic(p),
        Ok(Err(e)) => Out::Err(e.to_string()),
        Ok(Ok(v)) => Out::Ok(canon_n(&v)),
    }
}

fn check_spacing(sh: &Shared, fi: usize, toks: &[Token], expected: &CN, ks: &[usize], fills: &[u8]) -> Check {
    let enum_gaps: Vec<String> = ks.iter().map(|k| " ".repeat(*k)).collect();
    let w = printer::join_with(toks, &enum_gaps);
    sh.evals(3);
    expect("enum", "enum parser, spaces at token boundaries", &w, &enum_parse(fi, &w), expected)?;
    expect("lexical", "lexical parse + fold, same text", &w, &lexical_fold(fi, &w), expected)?;
    let lex_gaps: Vec<String> = ks
        .iter()
        .enumerate()
        .map(|(i, k)| {
            let f = if fills.is_empty() { ' ' } else { blank_chars()[(fills[i % fills.len()] as usize) % blank_chars().len()] };
            f.to_string().repeat(*k)
        })
        .collect();
    let wl = printer::join_with(toks, &lex_gaps);
    expect("lexical-unicode", "lexical parse + fold, Unicode whitespace at token boundaries", &wl, &lexical_fold(fi, &wl), expected)?;
    Ok(())
}

pub fn check(sh: &Shared, c: &Case) -> Check {
    let fi = c.fi.min(2);
    if !c.v.term().arity_ok() {
        fail!("harness/bad-case", "description violates arity");
    }
    let v = build_n(&c.v);
    let expected = canon_nd(&c.v);
    match guard(|| printer::gate(fi, &v)) {
        Ok(true) => {}
        _ => {
            sh.class("inconclusive/printer-desync");
            return Ok(());
        }
    }
    let (toks, _) = printer::tokens(fi, &v, Style::Plain, &[]);
    let n = toks.len();
    sh.class(&format!("format/{}", fmts::FMT_NAMES[fi]));
    sh.class(&format!("kind/{}", c.v.kind_name()));
    let ks: Vec<usize> = (0..=n).map(|i| if c.gaps.is_empty() { 0 } else { K[(c.gaps[i % c.gaps.len()] as usize) % 8] }).collect();
    let own = printer::formatter_gaps(fi, &toks);
    let differs = ks.iter().zip(own.iter()).any(|(k, g)| " ".repeat(*k) != *g);
    if differs {
        sh.nontrivial(fp(&(fi, &c.v, &ks)));
        sh.sample(&format!("{}/{}", fmts::FMT_NAMES[fi], c.v.kind_name()), || json!({"format": fmts::FMT_NAMES[fi], "text": printer::join_with(&toks, &ks.iter().map(|k| " ".repeat(*k)).collect::<Vec<_>>())}));
    }
    check_spacing(sh, fi, &toks, &expected, &ks, &c.fills)?;
    // the two extreme vectors
    check_spacing(sh, fi, &toks, &expected, &vec![0; n + 1], &c.fills)?;
    check_spacing(sh, fi, &toks, &expected, &vec![3; n + 1], &c.fills)?;
    // macro path: all whitespace stripped, character-vector entry point
    let w3 = printer::join_with(&toks, &vec!["   ".to_string(); n + 1]);
    sh.eval();
    expect("macro", "all whitespace removed + parse_chars (what enum_nse! does)", &w3, &macro_path(fi, &w3), &expected)?;
    Ok(())
}

#[derive(Clone, Debug, Serialize, Deserialize)]
pub struct SingleCase {
    pub fi: usize,
    pub v: ND,
}

/// every single-boundary perturbation of the formatter's own spacing
pub fn check_single(sh: &Shared, c: &SingleCase) -> Check {
    let fi = c.fi.min(2);
    if !c.v.term().arity_ok() {
        fail!("harness/bad-case", "description violates arity");
    }
    let v = build_n(&c.v);
    let expected = canon_nd(&c.v);
    match guard(|| printer::gate_exact(fi, &v)) {
        Ok(true) => {}
        _ => {
            sh.class("inconclusive/printer-desync");
            return Ok(());
        }
    }
    let (toks, _) = printer::tokens(fi, &v, Style::Plain, &[]);
    let own = printer::formatter_gaps(fi, &toks);
    sh.class(&format!("format/{}", fmts::FMT_NAMES[fi]));
    for i in 0..own.len() {
        let mut g = own.clone();
        g[i] = if g[i].is_empty() { " ".to_string() } else { String::new() };
        let w = printer::join_with(&toks, &g);
        sh.evals(2);
        sh.nontrivial(fp(&(fi, &w)));
        let before = if i == 0 { "START".to_string() } else { format!("{:?}", toks[i - 1].kind) };
        let after = if i == toks.len() { "END".to_string() } else { format!("{:?}", toks[i].kind) };
        sh.class(&format!("boundary/{before}-{after}"));
        let what = format!("single-boundary perturbation between {before} and {after}");
        expect("enum", &what, &w, &enum_parse(fi, &w), &expected)?;
        expect("lexical", &what, &w, &lexical_fold(fi, &w), &expected)?;
    }
    Ok(())
}

pub fn strategy() -> BoxedStrategy<Case> {
    use proptest::collection::vec;
    gen::fmt_and(|fi| (gen::narsese(gen::TermOpts { size: 20, deep_max: 0, ..gen::TermOpts::main(fi) }), vec(any::<u8>(), 0..40), vec(any::<u8>(), 0..8)).boxed())
        .prop_map(|(fi, (v, gaps, fills))| Case { fi, v, gaps, fills })
        .boxed()
}

pub fn strategy_single() -> BoxedStrategy<SingleCase> {
    gen::fmt_and(|fi| gen::narsese(gen::TermOpts { size: 14, depth: 3, deep_max: 0, ..gen::TermOpts::main(fi) })).prop_map(|(fi, v)| SingleCase { fi, v }).boxed()
}

/// small scope: C01's enumeration (every constructor / decoration) with uniform spacings 0, 1, 3
pub fn small_scope() -> Vec<Case> {
    let mut out = vec![];
    for (fi, v) in crate::props::c01::small_scope() {
        let i = out.len();
        out.push(Case { fi, v, gaps: vec![3], fills: vec![(i % 25) as u8, ((i / 25) % 25) as u8] });
    }
    // every Unicode blank on its own, at every boundary of an all-ASCII / all-Han text
    let term = D::node(Inh, vec![D::node(Product, vec![D::word("a"), D::atom(IVar, "x")]), D::node(SetExt, vec![D::word("b")])]);
    let values = [
        ND::Term(term.clone()),
        ND::Sentence(SD { term: term.clone(), punct: P::Judgement, stamp: St::Present, truth: vec![F::of(1.0), F::of(0.9)] }),
        ND::Task(TD { budget: vec![F::of(0.5), F::of(0.75)], s: SD { term, punct: P::Goal, stamp: St::Fixed(-5), truth: vec![F::of(1.0)] } }),
    ];
    for w in 0..blank_chars().len() {
        for fi in 0..3usize {
            for v in &values {
                for gaps in [vec![3u8], vec![6], vec![3, 0]] {
                    out.push(Case { fi, v: v.clone(), gaps, fills: vec![w as u8] });
                }
            }
        }
    }
    out
}

#[derive(Clone, Debug, Serialize, Deserialize)]
pub struct LongCase {
    pub fi: usize,
    pub v: ND,
    /// which boundary gets the run (index into the token boundaries, cyclic)
    pub boundary: usize,
    /// length of the run
    pub n: usize,
}

/// "any number of spaces": one boundary gets a run of 1 000 … 100 000 blanks. The parsers are
/// called on a thread with the platform's default stack (what a caller who spawns a thread
/// gets), because the amount of white space must not matter for that either.
pub fn check_long(sh: &Shared, c: &LongCase) -> Check {
    let fi = c.fi.min(2);
    let v = build_n(&c.v);
    let expected = canon_nd(&c.v);
    match guard(|| printer::gate(fi, &v)) {
        Ok(true) => {}
        _ => {
            sh.class("inconclusive/printer-desync");
            return Ok(());
        }
    }
    let (toks, _) = printer::tokens(fi, &v, Style::Plain, &[]);
    let b = c.boundary % (toks.len() + 1);
    let n = c.n.min(200_000);
    let mut gaps = vec![String::new(); toks.len() + 1];
    gaps[b] = " ".repeat(n);
    let w = printer::join_with(&toks, &gaps);
    gaps[b] = "\u{3000}\t".repeat(n / 2);
    let wl = printer::join_with(&toks, &gaps);
    sh.evals(3);
    sh.nontrivial(fp(&(fi, &c.v, b, n)));
    sh.class(&format!("run-length/{}", if n >= 50_000 { "50000+" } else if n >= 10_000 { "10000+" } else { "1000+" }));
    sh.sample(&format!("long-run/{}", fmts::FMT_NAMES[fi]), || json!({"format": fmts::FMT_NAMES[fi], "blanks": n, "boundary": b, "tokens": toks.len()}));
    let (e, l, lu) = std::thread::scope(|s| {
        std::thread::Builder::new().spawn_scoped(s, || (enum_parse(fi, &w), lexical_fold(fi, &w), lexical_fold(fi, &wl))).unwrap().join().unwrap()
    });
    let short = |t: &str| format!("{} … ({} chars, {n} blanks at boundary {b})", t.chars().filter(|c| !c.is_whitespace()).take(60).collect::<String>(), t.chars().count());
    expect("enum-long-run", "enum parser, one long run of spaces", &short(&w), &e, &expected)?;
    expect("lexical-long-run", "lexical parse + fold, one long run of spaces", &short(&w), &l, &expected)?;
    expect("lexical-long-run", "lexical parse + fold, one long run of Unicode blanks", &short(&wl), &lu, &expected)?;
    Ok(())
}

pub fn long_runs() -> Vec<LongCase> {
    let term = D::node(Inh, vec![D::node(Product, vec![D::word("a"), D::atom(IVar, "x")]), D::node(SetExt, vec![D::word("b")])]);
    let values = vec![
        ND::Term(term.clone()),
        ND::Task(TD { budget: vec![F::of(0.5), F::of(0.75)], s: SD { term: term.clone(), punct: P::Judgement, stamp: St::Fixed(-5), truth: vec![F::of(1.0), F::of(0.9)] } }),
    ];
    let mut out = vec![];
    for fi in 0..3usize {
        for v in &values {
            // every boundary with a moderate run, a few boundaries with the long ones
            for b in 0..40usize {
                out.push(LongCase { fi, v: v.clone(), boundary: b, n: 1_000 });
            }
            for b in [0usize, 1, 2, 5, 9, 12, 17, 23] {
                out.push(LongCase { fi, v: v.clone(), boundary: b, n: 30_000 });
                out.push(LongCase { fi, v: v.clone(), boundary: b, n: 100_000 });
            }
        }
    }
    out
}

pub fn streams() -> Vec<Box<dyn AnyStream>> {
    vec![
        // C01's constructor-inside-constructor enumeration with uniform spacings 0 / 3 / formatter's
        Box::new(Stream::<Case> {
            name: "nested-pairs",
            quick: 0,
            thorough: 0,
            source: Source::Enum(Box::new(|_| Box::new(crate::props::c01::nested_pairs().into_iter().enumerate().map(|(i, (fi, v))| Case { fi, v, gaps: vec![3, 0, 1], fills: vec![(i % 25) as u8, ((i / 25) % 25) as u8] })))),
            check: Box::new(check),
        }),
        Box::new(Stream::<LongCase> {
            name: "long-runs",
            quick: 0,
            thorough: 0,
            source: Source::Enum(Box::new(|_| Box::new(long_runs().into_iter()))),
            check: Box::new(check_long),
        }),
        Box::new(Stream::<Case> {
            name: "small-scope",
            quick: 0,
            thorough: 0,
            source: Source::Enum(Box::new(|_| Box::new(small_scope().into_iter()))),
            check: Box::new(check),
        }),
        Box::new(Stream::<Case> {
            name: "spacings",
            quick: 15_000,
            thorough: 1_000_000,
            source: Source::Gen(Box::new(strategy)),
            check: Box::new(check),
        }),
        Box::new(Stream::<SingleCase> {
            name: "single-boundary",
            quick: 2_000,
            thorough: 100_000,
            source: Source::Gen(Box::new(strategy_single)),
            check: Box::new(check_single),
        }),
    ]
}

pub const PROP: Prop = Prop {
    id: "C09",
    rule: "cases = (format, well-formed value, spacing vector, whitespace kinds): the value's token sequence (brackets, connecters, separators, prefix+name atoms, copulas, punctuation, stamp bracket/marker/signed integer, truth and budget brackets/numbers/separators) is joined with 0/1/2/5 spaces per boundary (lexical pipeline: any of the 25 Unicode White_Space characters, each also alone at every boundary in the small scope), plus the all-0 and all-3 vectors and the strip-everything + parse_chars macro path; stream single-boundary toggles each boundary of the formatter's own spacing in turn ; stream long-runs puts a run of 1 000 / 30 000 / 100 000 blanks at one boundary and parses on a default-stack thread; stream nested-pairs = C01's constructor-inside-constructor enumeration with uniform spacings; oracle: both pipelines return the source value; evaluations count parser calls; non-trivial = spacing differs from the formatter's own; distinct = fingerprint of (format, value, vector)",
    assumptions: &["the token printer is trusted only when its concatenation equals the formatter's output with spaces deleted (else inconclusive)", "canonical form as in C01"],
    streams,
};
