//! C05 — the lexical parser and lexical folding are total.
use crate::desc::*;
use crate::engine::*;
use crate::fail;
use crate::fmts;
use crate::gen;
use crate::lexgen::*;
use crate::props::c04::in_bounds;
use crate::strgen;
use narsese::conversion::inter_type::lexical_fold::TryFoldInto;
use proptest::prelude::*;
use serde::{Deserialize, Serialize};
use serde_json::json;

#[derive(Clone, Debug, Serialize, Deserialize)]
pub struct SCase {
    pub fi: usize,
    pub class: String,
    pub s: String,
}

pub fn check_string(sh: &Shared, c: &SCase) -> Check {
    let fi = c.fi.min(2);
    if !in_bounds(fi, &c.s) {
        fail!("harness/bad-case", "input exceeds the bounds of the property");
    }
    let l = fmts::l(fi);
    let s = c.s.as_str();
    sh.watch(|| json!({"stream": "strings", "case": c}));
    sh.evals(2);
    sh.class(&format!("source/{}", c.class));
    sh.class(&format!("format/{}", fmts::FMT_NAMES[fi]));
    if strgen::touches_syntax(fi, s) {
        sh.nontrivial(fp(&(fi, s)));
        sh.sample(&format!("{}/{}", c.class, fmts::FMT_NAMES[fi]), || json!({"format": fmts::FMT_NAMES[fi], "input": s}));
    }
    match guard(|| l.parse(s)) {
        Err(p) => fail!("panic:lexical-parse", "input {s:?}\npanic {p}"),
        Ok(Ok(v)) => {
            sh.class("outcome/parse/ok");
            // an accepted value is folded too (the pipeline the library documents)
            sh.eval();
            match guard(|| v.try_fold_into(fmts::e(fi))) {
                Err(p) => fail!("panic:fold-after-parse", "input {s:?}\npanic {p}"),
                Ok(Ok(_)) => sh.class("outcome/fold-after-parse/ok"),
                Ok(Err(e)) => {
                    sh.class("outcome/fold-after-parse/err");
                    if let Err(p) = guard(|| format!("{e:?}")) {
                        fail!("panic:fold-error-display", "input {s:?}\npanic {p}");
                    }
                }
            }
        }
        Ok(Err(e)) => {
            sh.class("outcome/parse/err");
            if let Err(p) = guard(|| e.to_string()) {
                fail!("panic:lexical-error-display", "input {s:?}\npanic {p}");
            }
        }
    }
    match guard(|| l.parse_term(s)) {
        Err(p) => fail!("panic:lexical-parse_term", "input {s:?}\npanic {p}"),
        Ok(Ok(_)) => sh.class("outcome/parse_term/ok"),
        Ok(Err(e)) => {
            if let Err(p) = guard(|| e.to_string()) {
                fail!("panic:lexical-error-display", "input {s:?}\npanic {p}");
            }
        }
    }
    // one input in 32 again in other calling contexts (a destructor during unwinding, a
    // thread-local destructor at thread exit): same outcome, still no panic
    if !is_fuzz_mode() && crate::slots::key_of(s) % 32 == 0 {
        let here = (guard(|| l.parse(s).is_ok()).ok(), guard(|| l.parse_term(s).is_ok()).ok());
        for ctx in crate::contexts::ALL {
            sh.evals(2);
            sh.class(&format!("context/{ctx:?}"));
            let s2 = s.to_string();
            let got = crate::contexts::run_in(ctx, move || {
                let l = fmts::l(fi);
                (guard(|| l.parse(&s2).is_ok()).ok(), guard(|| l.parse_term(&s2).is_ok()).ok())
            });
            let Ok(got) = got else {
                sh.class("inconclusive/context-thread-not-started");
                continue;
            };
            match got {
                None => fail!("context:thread-died", "input {s:?}: the thread parsing inside {ctx:?} died"),
                Some(g) if g != here => fail!("context:outcome-differs", "input {s:?}\n(parse ok, parse_term ok) here = {here:?}, inside {ctx:?} = {g:?} (None = panic)"),
                _ => {}
            }
        }
    }
    sh.unwatch();
    Ok(())
}

#[derive(Clone, Debug, Serialize, Deserialize)]
pub struct VCase {
    pub class: String,
    pub x: LN,
}

pub fn check_value(sh: &Shared, c: &VCase) -> Check {
    sh.watch(|| json!({"stream": "values", "case": c}));
    sh.class(&format!("source/{}", c.class));
    if c.x.term().depth() >= 2 {
        sh.nontrivial(fp(&c.x));
        sh.sample(&format!("value/{}", c.class), || json!(c.x));
    }
    for fi in 0..3 {
        sh.eval();
        let lex = c.x.to_lex();
        match guard(|| lex.try_fold_into(fmts::e(fi))) {
            Err(p) => fail!("panic:fold", "folding with enum format {}\nvalue {:?}\npanic {p}", fmts::FMT_NAMES[fi], c.x),
            Ok(Ok(_)) => sh.class(&format!("outcome/fold/ok/{}", fmts::FMT_NAMES[fi])),
            Ok(Err(e)) => {
                sh.class(&format!("outcome/fold/err/{}", fmts::FMT_NAMES[fi]));
                if let Err(p) = guard(|| format!("{e:?}")) {
                    fail!("panic:fold-error-display", "value {:?}\npanic {p}", c.x);
                }
            }
        }
    }
    sh.unwatch();
    Ok(())
}

pub fn strategy_strings() -> BoxedStrategy<SCase> {
    gen::fmt_and(strgen::any_string).prop_map(|(fi, (class, s))| SCase { fi, class, s }).boxed()
}

pub fn strategy_values() -> BoxedStrategy<VCase> {
    gen::fmt_and(|fi| {
        prop_oneof![
            50 => wild_value(fi).prop_map(|x| ("wild".to_string(), x)),
            50 => near_valid_value(fi).prop_map(|x| ("near-valid".to_string(), x)),
        ]
        .boxed()
    })
    .prop_map(|(_, (class, x))| VCase { class, x })
    .boxed()
}

pub fn streams() -> Vec<Box<dyn AnyStream>> {
    vec![
        Box::new(Stream::<SCase> {
            name: "token-sequences",
            quick: 0,
            thorough: 0,
            source: Source::Enum(Box::new(|tier| Box::new(strgen::token_space(tier == Tier::Thorough).map(|(fi, s)| SCase { fi, class: "tokens".into(), s })))),
            check: Box::new(check_string),
        }),
        Box::new(Stream::<SCase> {
            name: "strings",
            quick: 50_000,
            thorough: 3_000_000,
            source: Source::Gen(Box::new(strategy_strings)),
            check: Box::new(check_string),
        }),
        Box::new(Stream::<VCase> {
            name: "decoration-fields",
            quick: 0,
            thorough: 0,
            source: Source::Enum(Box::new(|_| Box::new(decoration_space().into_iter().map(|x| VCase { class: "decoration".into(), x })))),
            check: Box::new(check_value),
        }),
        Box::new(Stream::<VCase> {
            name: "values",
            quick: 30_000,
            thorough: 2_000_000,
            source: Source::Gen(Box::new(strategy_values)),
            check: Box::new(check_value),
        }),
    ]
}

pub const PROP: Prop = Prop {
    id: "C05",
    rule: "stream strings: (lexical format, string ≤ 512 chars / ≤ 64 opening brackets) from keyword soup, mutated valid values (incl. truncation inside keywords), deep unterminated nests, arbitrary Unicode, valid values → parse and parse_term (and fold when accepted) must return; stream values: arbitrary lexical values (every field a wild string: unknown prefixes/connecters/copulas, NaN/inf/1e400/-0/+7, malformed stamps, arities 0..5, images without placeholder) and near-valid edits of arity-valid values, folded with each of the 3 enum formats; stream decoration-fields enumerates a valid one-atom judgement / task with exactly one of stamp, truth entry, budget entry or punctuation replaced by every degenerate text (the wild pool, every proper prefix and suffix of every keyword and decoration bracket, boundary numerals); evaluations count calls; non-trivial = string contains a keyword / value has depth ≥ 2; distinct by fingerprint",
    assumptions: &["panics observed through catch_unwind; bounded time approximated by the 20 s watchdog + isolated 60 s confirmation"],
    streams,
};
