//! C10 — derived copulas and surface sugar mean what the documentation says.
use crate::desc::*;
use crate::engine::*;
use crate::fail;
use crate::fmts;
use crate::gen;
use crate::pipes::*;
use crate::printer::{self, Style};
use narsese::enum_narsese::Narsese;
use proptest::collection::vec;
use proptest::prelude::*;
use serde::{Deserialize, Serialize};
use serde_json::json;

#[derive(Clone, Debug, Serialize, Deserialize)]
pub struct Case {
    pub fi: usize,
    /// the EXPECTED value, described with bare constructors only
    pub d: D,
    pub tape: Vec<u8>,
}

/// like D::arity_ok but images may carry later placeholders (positions ≥ index)
fn shape_ok(d: &D) -> bool {
    d.arity_ok() && !d.any(&|x| x.k.is_image() && x.kids.iter().take(x.n).any(|k| k.k == Placeholder))
}

pub fn check(sh: &Shared, c: &Case) -> Check {
    let fi = c.fi.min(2);
    if !shape_ok(&c.d) {
        fail!("harness/bad-case", "description violates arity / image shape");
    }
    sh.eval();
    // expected value: bare variants, never through new_instance & co.
    let expected = canon_nd(&ND::Term(c.d.clone()));
    let v = Narsese::Term(build_raw(&c.d));
    match guard(|| printer::gate_exact(fi, &v)) {
        Ok(true) => {}
        _ => {
            sh.class("inconclusive/printer-desync");
            return Ok(());
        }
    }
    let (toks, used) = printer::tokens(fi, &v, Style::SugarAlways, &c.tape);
    if used.is_empty() {
        sh.class("trivial/no-sugar");
        return Ok(());
    }
    let text = printer::render(fi, &toks);
    for u in &used {
        sh.class(&format!("sugar/{u}/{}", fmts::FMT_NAMES[fi]));
    }
    let nontrivial = c.d.kids.iter().any(|k| !k.k.is_atom()) || c.d.kids.len() >= 3 || c.d.depth() >= 3;
    if nontrivial {
        sh.nontrivial(fp(&(fi, &text)));
        sh.sample(&format!("{}/{}", used[0], fmts::FMT_NAMES[fi]), || json!({"format": fmts::FMT_NAMES[fi], "text": text, "expected": c.d}));
    }
    let e = enum_parse(fi, &text);
    let l = lexical_fold(fi, &text);
    for (name, out) in [("enum", &e), ("lexical", &l)] {
        match out {
            Out::Ok(x) if *x == expected => {}
            Out::Ok(x) => fail!(format!("{name}:wrong-meaning"), "pipeline {name}\ntext {text:?}\ngot      {:?}\nexpected {:?}\nsugars used {used:?}", x.term, expected.term),
            Out::Err(m) => fail!(format!("{name}:err"), "pipeline {name}\ntext {text:?}\nerror {m}\nsugars used {used:?}"),
            Out::Panic(p) => fail!(format!("{name}:panic"), "pipeline {name}\ntext {text:?}\npanic {p}"),
        }
    }
    Ok(())
}

fn image_with_later_placeholders(fi: usize, inner: BoxedStrategy<D>) -> BoxedStrategy<D> {
    let _ = fi;
    (proptest::sample::select(IMAGES.to_vec()), vec(inner, 1..=5), any::<u16>(), vec(any::<bool>(), 5))
        .prop_map(|(k, kids, frac, ph)| {
            let mut kids: Vec<D> = kids.into_iter().map(|d| if d.k == Placeholder { D::word("p") } else { d }).collect();
            let idx = gen::idx_of(frac, kids.len());
            for j in idx..kids.len() {
                if ph[j] && j > idx {
                    kids[j] = D::placeholder();
                }
            }
            D::image(k, idx, kids)
        })
        .boxed()
}

pub fn strategy() -> BoxedStrategy<Case> {
    gen::fmt_and(|fi| {
        let o = gen::TermOpts { depth: 3, size: 14, ..gen::TermOpts::main(fi) };
        let inner = gen::term(o);
        let shapes = prop_oneof![
            18 => (inner.clone(), inner.clone()).prop_map(|(s, p)| D::node(Inh, vec![D::node(SetExt, vec![s]), p])),
            18 => (inner.clone(), inner.clone()).prop_map(|(s, p)| D::node(Inh, vec![s, D::node(SetInt, vec![p])])),
            18 => (inner.clone(), inner.clone()).prop_map(|(s, p)| D::node(Inh, vec![D::node(SetExt, vec![s]), D::node(SetInt, vec![p])])),
            18 => (inner.clone(), inner.clone()).prop_map(|(s, p)| D::node(EquPred, vec![s, p])),
            14 => image_with_later_placeholders(fi, inner.clone()),
            7 => gen::interval_value().prop_map(D::interval),
            7 => (proptest::sample::select(vec![Product, Seq, SetExt, Conj]), vec(inner.clone(), 0..=2)).prop_map(|(k, mut kids)| { kids.push(D::placeholder()); D::node(k, kids) }),
        ];
        // optionally nested inside a wrapper so the sugar also occurs below the root
        (shapes, inner, 0u8..4, gen::tape())
            .prop_map(|(core, side, wrap, tape)| {
                let d = match wrap {
                    0 => core,
                    1 => D::node(Imp, vec![core, side]),
                    2 => D::node(Conj, vec![side, core]),
                    _ => D::node(Neg, vec![core]),
                };
                (d, tape)
            })
            .boxed()
    })
    .prop_map(|(fi, (d, tape))| Case { fi, d, tape })
    .boxed()
}

/// small scope: every sugar shape over a fixed operand pool (atoms of every kind, sets — also
/// as the operand that gets wrapped —, compounds, statements, images) × formats
pub fn small_scope() -> Vec<Case> {
    let a = D::word("a");
    let pool: Vec<D> = vec![
        a.clone(),
        D::word("1"),
        D::atom(IVar, "x"),
        D::atom(Op, "op"),
        D::interval(7),
        D::placeholder(),
        D::node(SetExt, vec![a.clone()]),
        D::node(SetInt, vec![a.clone()]),
        D::node(SetExt, vec![a.clone(), D::word("b")]),
        D::node(Product, vec![a.clone(), D::word("b")]),
        D::node(Inh, vec![a.clone(), D::word("b")]),
        D::node(EquPred, vec![a.clone(), D::word("b")]),
        D::image(ImgExt, 1, vec![a.clone(), D::word("b")]),
        D::node(Neg, vec![a.clone()]),
    ];
    let mut out = vec![];
    for fi in 0..3usize {
        for s in &pool {
            for p in &pool {
                let shapes = vec![
                    D::node(Inh, vec![D::node(SetExt, vec![s.clone()]), p.clone()]),
                    D::node(Inh, vec![s.clone(), D::node(SetInt, vec![p.clone()])]),
                    D::node(Inh, vec![D::node(SetExt, vec![s.clone()]), D::node(SetInt, vec![p.clone()])]),
                    D::node(EquPred, vec![s.clone(), p.clone()]),
                ];
                for d in shapes {
                    out.push(Case { fi, d, tape: vec![3] });
                }
            }
        }
        // images: every placeholder position, later placeholders at every position
        for k in IMAGES {
            for n in 1..=4usize {
                for idx in 0..=n {
                    for later in 0..(1u32 << (n - idx.min(n))) {
                        let mut kids: Vec<D> = (0..n).map(|i| D::word(&format!("c{i}"))).collect();
                        for j in idx..n {
                            if later & (1 << (j - idx)) != 0 && j > idx {
                                kids[j] = D::placeholder();
                            }
                        }
                        out.push(Case { fi, d: D::image(k, idx, kids), tape: vec![3] });
                    }
                }
            }
        }
        for v in [0usize, 1, 7, 30000, usize::MAX] {
            out.push(Case { fi, d: D::node(Product, vec![D::interval(v), a.clone()]), tape: vec![5, 2] });
        }
    }
    out
}

pub fn streams() -> Vec<Box<dyn AnyStream>> {
    vec![
        Box::new(Stream::<Case> {
            name: "small-scope",
            quick: 0,
            thorough: 0,
            source: Source::Enum(Box::new(|_| Box::new(small_scope().into_iter()))),
            check: Box::new(check),
        }),
        Box::new(Stream::<Case> {
        name: "sugar",
        quick: 30_000,
        thorough: 2_000_000,
        source: Source::Gen(Box::new(strategy)),
        check: Box::new(check),
    }),
    ]
}

pub const PROP: Prop = Prop {
    id: "C10",
    rule: "cases = (format, expected term described with bare constructors, tape): shapes <{S} --> P>, <S --> [P]>, <{S} --> [P]>, predictive equivalence, images with index = position of the first placeholder (later placeholders allowed), intervals, placeholders — printed by the harness with the derived copula / swapped retrospective equivalence / zero-padded interval / decorated placeholder and parsed by both pipelines; oracle: both equal the canonical form of the bare-variant description (the derived constructors are never used); non-trivial = an operand is a compound/statement, the list has ≥ 3 items or depth ≥ 3; distinct = fingerprint of (format, text)",
    assumptions: &["sugar printer gated against the formatter as in C03"],
    streams,
};
