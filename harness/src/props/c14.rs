//! C14 — component access, category and capacity of terms are mutually consistent.
use crate::desc::*;
use crate::engine::*;
use crate::fail;
use crate::fmts;
use crate::gen;
use crate::lexgen::*;
use narsese::api::{ExtractTerms, GetCapacity, GetCategory, TermCapacity, TermCategory};
use narsese::conversion::inter_type::lexical_fold::TryFoldInto;
use narsese::enum_narsese::Term;
use proptest::prelude::*;
use serde::{Deserialize, Serialize};
use serde_json::json;

#[derive(Clone, Debug, Serialize, Deserialize)]
pub struct Case {
    pub d: D,
    /// 0 = bare variants, 1 = constructors
    pub how: u8,
}

fn expected_category(k: Kind) -> TermCategory {
    if k.is_atom() {
        TermCategory::Atom
    } else if k.is_statement() {
        TermCategory::Statement
    } else {
        TermCategory::Compound
    }
}

fn expected_capacity(k: Kind) -> TermCapacity {
    if k.is_atom() {
        TermCapacity::Atom
    } else if k == Neg {
        TermCapacity::Unary
    } else if k.is_sym_statement() {
        TermCapacity::BinarySet
    } else if k.is_binary_ordered() {
        TermCapacity::BinaryVec
    } else if k.is_set_like() {
        TermCapacity::Set
    } else {
        TermCapacity::Vec
    }
}

fn check_node(sh: &Shared, d: &D, t: &Term) -> Check {
    sh.eval();
    sh.class(&format!("kind/{:?}", d.k));
    // category: exactly one, and the right one
    let cat = t.get_category();
    let flags = [t.is_atom(), t.is_compound(), t.is_statement()];
    if flags.iter().filter(|b| **b).count() != 1 {
        fail!("category:not-a-partition", "{:?}: is_atom/is_compound/is_statement = {flags:?}", d.k);
    }
    if cat != expected_category(d.k) || flags != [cat == TermCategory::Atom, cat == TermCategory::Compound, cat == TermCategory::Statement] {
        fail!("category:wrong", "{:?}: category {cat:?}, predicates {flags:?}", d.k);
    }
    // capacity
    let cap = t.get_capacity();
    if cap != expected_capacity(d.k) {
        fail!("capacity:wrong", "{:?}: capacity {cap:?}, expected {:?}", d.k, expected_capacity(d.k));
    }
    let preds = [
        t.is_capacity_atom(),
        t.is_capacity_unary(),
        t.is_capacity_binary(),
        t.is_capacity_binary_vec(),
        t.is_capacity_binary_set(),
        t.is_capacity_multi(),
        t.is_capacity_vec(),
        t.is_capacity_set(),
    ];
    use TermCapacity as TC;
    let want = [
        cap == TC::Atom,
        cap == TC::Unary,
        matches!(cap, TC::BinaryVec | TC::BinarySet),
        cap == TC::BinaryVec,
        cap == TC::BinarySet,
        matches!(cap, TC::Vec | TC::Set),
        cap == TC::Vec,
        cap == TC::Set,
    ];
    if preds != want {
        fail!("capacity:predicates", "{:?}: capacity {cap:?} but predicates {preds:?}", d.k);
    }
    // accessors
    let with_ph: Vec<C> = guard(|| t.get_components_including_placeholder().into_iter().map(canon_t).collect()).map_err(|p| Failure::new("components:panic", p))?;
    let without: Vec<C> = guard(|| t.get_components().into_iter().map(canon_t).collect()).map_err(|p| Failure::new("components:panic", p))?;
    let extracted: Vec<C> = guard(|| t.clone().extract_terms_to_vec().iter().map(canon_t).collect()).map_err(|p| Failure::new("extract:panic", format!("extract_terms_to_vec panicked: {p}\nterm {d:?}")))?;
    let extracted2: Vec<C> = guard(|| t.clone().extract_terms().map(|x| canon_t(&x)).collect()).map_err(|p| Failure::new("extract:panic", p))?;
    if extracted != extracted2 {
        fail!("extract:iter-vs-vec", "{d:?}");
    }
    let unordered = d.k.is_set_like();
    let norm = |mut v: Vec<C>| {
        if unordered {
            v.sort();
        }
        v
    };
    if norm(extracted.clone()) != norm(with_ph.clone()) {
        fail!("extract:differs-from-accessor", "term {d:?}\nextract_terms_to_vec            {extracted:?}\nget_components_including_placeholder {with_ph:?}");
    }
    // the description itself is the reference
    let kid_canons: Vec<C> = d.kids.iter().map(canon_d).collect();
    let ph = canon_d(&D::placeholder());
    if d.k.is_atom() {
        let me = canon_d(d);
        if extracted != vec![me.clone()] || without != vec![me] {
            fail!("components:atom", "atom {d:?}: components {without:?}, extracted {extracted:?}");
        }
    } else if d.k.is_image() {
        let mut want = kid_canons.clone();
        want.insert(d.n, ph.clone());
        if extracted != want {
            fail!("extract:image-placeholder", "image {d:?}\nextracted {extracted:?}\nexpected  {want:?}");
        }
        if with_ph != want {
            fail!("components:image-placeholder", "image {d:?}\nincluding placeholder {with_ph:?}\nexpected {want:?}");
        }
        if without != kid_canons {
            fail!("components:image-without-placeholder", "image {d:?}\nget_components {without:?}\nexpected {kid_canons:?}");
        }
        sh.class(&format!("image_index/{}", if d.n == 0 { "first" } else if d.n == d.kids.len() { "last" } else { "middle" }));
    } else {
        let mut want = kid_canons.clone();
        if unordered {
            want.sort();
            want.dedup();
        }
        if norm(without.clone()) != want || norm(extracted.clone()) != want {
            fail!("components:differ-from-description", "term {d:?}\nget_components {without:?}\nextracted {extracted:?}\nexpected {want:?}");
        }
    }
    let cc = t.get_compound_components();
    if cc.is_some() != t.is_compound() {
        fail!("compound-components:presence", "{:?}: get_compound_components is_some={} but is_compound={}", d.k, cc.is_some(), t.is_compound());
    }
    if let Some(v) = cc {
        let v: Vec<C> = v.into_iter().map(canon_t).collect();
        if norm(v) != norm(without.clone()) {
            fail!("compound-components:value", "{d:?}");
        }
    }
    // capacity class matches the component count
    let n = without.len();
    let count_ok = match cap {
        TC::Atom | TC::Unary => n == 1,
        TC::BinaryVec | TC::BinarySet => n == 2,
        _ => true,
    };
    if !count_ok {
        fail!("capacity:count", "{:?}: capacity {cap:?} with {n} components", d.k);
    }
    Ok(())
}

pub fn check(sh: &Shared, c: &Case) -> Check {
    // the placeholder-only image (what `(/, _)` parses to) is admitted at the root, see small_scope()
    let placeholder_only = c.d.k.is_image() && c.d.kids.is_empty() && c.d.n == 0;
    if !c.d.arity_ok() && !placeholder_only {
        fail!("harness/bad-case", "description violates arity");
    }
    let t = if c.how == 0 { build_raw(&c.d) } else { build_ctor(&c.d) };
    if !c.d.k.is_atom() {
        sh.nontrivial(fp(c));
        sh.sample(&format!("{:?}", c.d.k), || json!(c.d));
    }
    // every node of the term
    fn walk(sh: &Shared, d: &D, how: u8) -> Check {
        let t = if how == 0 { build_raw(d) } else { build_ctor(d) };
        check_node(sh, d, &t)?;
        for k in &d.kids {
            walk(sh, k, how)?;
        }
        Ok(())
    }
    let _ = t;
    walk(sh, &c.d, c.how)
}

#[derive(Clone, Debug, Serialize, Deserialize)]
pub struct LCase {
    pub fi: usize,
    pub x: LT,
}

pub fn check_lexical(sh: &Shared, c: &LCase) -> Check {
    let fi = c.fi.min(2);
    sh.eval();
    let x = c.x.to_lex();
    let stored: Vec<LT> = match &c.x {
        LT::Atom { .. } => vec![c.x.clone()],
        LT::Compound { terms, .. } | LT::Set { terms, .. } => terms.clone(),
        LT::Statement { subject, predicate, .. } => vec![(**subject).clone(), (**predicate).clone()],
    };
    let got: Vec<LT> = guard(|| x.clone().extract_terms_to_vec().iter().map(LT::from_lex).collect()).map_err(|p| Failure::new("lexical-extract:panic", p))?;
    if got != stored {
        fail!("lexical-extract:differs", "value {:?}\nextracted {got:?}\nstored {stored:?}", c.x);
    }
    let cat = x.get_category();
    let want = match &c.x {
        LT::Atom { .. } => TermCategory::Atom,
        LT::Statement { .. } => TermCategory::Statement,
        _ => TermCategory::Compound,
    };
    if cat != want || [x.is_atom(), x.is_compound(), x.is_statement()].iter().filter(|b| **b).count() != 1 {
        fail!("lexical-category:wrong", "value {:?} category {cat:?}", c.x);
    }
    if !c.x.is_atom() {
        sh.nontrivial(fp(c));
    }
    match guard(|| x.clone().try_fold_into(fmts::e(fi))) {
        Err(p) => fail!("fold:panic", "{p}"),
        Ok(Err(_)) => {
            sh.class("lexical/fold-rejected");
        }
        Ok(Ok(t)) => {
            sh.class("lexical/folded");
            if t.get_category() != cat {
                fail!("lexical-category:differs-from-folded", "lexical {:?} has category {cat:?}, folded term {:?} has {:?}", c.x, kind_of(&t), t.get_category());
            }
        }
    }
    Ok(())
}

pub fn small_scope() -> Vec<Case> {
    let mut out = vec![];
    let atoms = [D::word("a"), D::atom(IVar, "x"), D::interval(0), D::placeholder(), D::atom(Op, "op")];
    for a in &atoms {
        for how in 0..2 {
            out.push(Case { d: a.clone(), how });
        }
    }
    // lists of length 1..4 over the atoms (placeholder not directly inside images)
    fn lists(atoms: &[D], len: usize) -> Vec<Vec<D>> {
        if len == 0 {
            return vec![vec![]];
        }
        let mut out = vec![];
        for l in lists(atoms, len - 1) {
            for a in atoms {
                let mut l2 = l.clone();
                l2.push(a.clone());
                out.push(l2);
            }
        }
        out
    }
    for k in ALL_KINDS {
        if k.is_atom() {
            continue;
        }
        if k.is_image() {
            // the placeholder-only image: `(/, _)` is accepted by both parsers and yields exactly this
            // value, and C12 calls parser output well-formed — so the accessors must agree on it too
            for how in 0..2 {
                out.push(Case { d: D::image(k, 0, vec![]), how });
            }
        }
        for len in 1..=4usize {
            let pool: Vec<D> = atoms.to_vec();
            for l in lists(&pool[..pool.len().min(if len == 4 { 3 } else { 5 })], len) {
                let ok = if k == Neg { len == 1 } else if k.is_binary_ordered() || k.is_sym_statement() { len == 2 } else { true };
                if !ok {
                    continue;
                }
                if k.is_image() {
                    for i in 0..=len {
                        for how in 0..2 {
                            out.push(Case { d: D::image(k, i, l.clone()), how });
                        }
                    }
                } else {
                    for how in 0..2 {
                        out.push(Case { d: D::node(k, l.clone()), how });
                    }
                }
            }
        }
    }
    out
}

/// C14 never prints the term, so image component lists may also hold placeholder atoms —
/// including one at exactly the recorded index ((/, A, _, _) parses to such a value)
fn sprinkle_placeholders(d: &D, picks: &[u8], at: &mut usize) -> D {
    let mut out = d.clone();
    out.kids = d.kids.iter().map(|k| sprinkle_placeholders(k, picks, at)).collect();
    if out.k.is_image() {
        for i in 0..out.kids.len() {
            let b = if picks.is_empty() { 1 } else { picks[*at % picks.len()] };
            *at += 1;
            if b % 4 == 0 && out.kids[i].k.is_atom() {
                out.kids[i] = D::placeholder();
            }
        }
    }
    out
}

pub fn strategy() -> BoxedStrategy<Case> {
    (gen::term(gen::TermOpts::main(0)), 0u8..2, proptest::collection::vec(any::<u8>(), 0..8), any::<bool>())
        .prop_map(|(d, how, picks, sprinkle)| {
            let d = if sprinkle { sprinkle_placeholders(&d, &picks, &mut 0) } else { d };
            Case { d, how }
        })
        .boxed()
}

pub fn strategy_lexical() -> BoxedStrategy<LCase> {
    gen::fmt_and(|fi| {
        prop_oneof![
            35 => vocab_term(fi, gen::NameProfile::Main, 3, 12),
            35 => gen::term(gen::TermOpts { depth: 3, size: 12, ..gen::TermOpts::main(fi) }).prop_map(move |d| lex_of_desc(fi, &d)),
            // values outside one vocabulary slot: a copula where a connecter belongs, foreign
            // prefixes and brackets, odd arities — whatever of them folds must keep its category
            20 => near_valid_value(fi).prop_map(|v| v.term().clone()),
            10 => wild_term(fi),
        ]
        .boxed()
    })
    .prop_map(|(fi, x)| LCase { fi, x })
    .boxed()
}

/// very wide terms: 1 025 … 5 000 components, images with the placeholder at the start, in the
/// front half, in the middle, in the back half and at the end
pub fn very_wide() -> Vec<Case> {
    let mut out = vec![];
    for n in [1025usize, 1500, 2049, 5000] {
        let kids: Vec<D> = (0..n).map(|i| D::word(&format!("w{i}"))).collect();
        for how in 0..2u8 {
            for k in [ImgExt, ImgInt] {
                for idx in [0, 1, n / 4, n / 2 - 1, n / 2, n / 2 + 1, 3 * n / 4, n - 1, n] {
                    out.push(Case { d: D::image(k, idx, kids.clone()), how });
                }
            }
            for k in [Product, Seq, SetExt, Conj, IntInt] {
                out.push(Case { d: D::node(k, kids.clone()), how });
            }
        }
    }
    out
}

pub fn streams() -> Vec<Box<dyn AnyStream>> {
    vec![
        Box::new(Stream::<Case> {
            name: "very-wide",
            quick: 0,
            thorough: 0,
            source: Source::Enum(Box::new(|_| Box::new(very_wide().into_iter()))),
            check: Box::new(check),
        }),
        Box::new(Stream::<Case> {
            name: "small-scope",
            quick: 0,
            thorough: 0,
            source: Source::Enum(Box::new(|_| Box::new(small_scope().into_iter()))),
            check: Box::new(check),
        }),
        Box::new(Stream::<Case> {
            name: "terms",
            quick: 30_000,
            thorough: 3_000_000,
            source: Source::Gen(Box::new(strategy)),
            check: Box::new(check),
        }),
        Box::new(Stream::<LCase> {
            name: "lexical",
            quick: 30_000,
            thorough: 3_000_000,
            source: Source::Gen(Box::new(strategy_lexical)),
            check: Box::new(check_lexical),
        }),
    ]
}

pub const PROP: Prop = Prop {
    id: "C14",
    rule: "stream terms/small-scope: well-formed enum terms (every constructor, images with every index 0..=n, nesting; built from bare variants and from constructors), every node of each term is checked (evaluations count nodes): extract_terms_to_vec vs get_components_including_placeholder (sequence for ordered, multiset for set-like), both vs the description, image placeholder at its recorded index and absent from get_components, get_compound_components ⇔ is_compound, category partition, capacity class table, the eight is_capacity_* predicates, component counts; stream lexical (vocabulary-consistent, mirrored, near-valid and wild lexical terms): extraction returns the stored components and category(x) = category(fold(x)) whenever x folds; small-scope enumerates constructors × lists ≤ 4 over 5 atoms × all indices; non-trivial = root is a compound/statement; distinct = fingerprint of the case",
    assumptions: &["the constructor → category/capacity table is written in the harness from the property text"],
    streams,
};
