//! C15 — term / sentence / task classification and conversions are lossless.
use crate::desc::*;
use crate::engine::*;
use crate::fail;
use crate::fmts;
use crate::gen;
use crate::lexgen::*;
use narsese::api::{CastToTask, GetBudget, TryCastToSentence};
use narsese::conversion::inter_type::lexical_fold::TryFoldInto;
use narsese::enum_narsese::{Budget, Narsese, Sentence, Task};
use narsese::lexical as lx;
use proptest::prelude::*;
use serde::{Deserialize, Serialize};
use serde_json::json;

#[derive(Clone, Debug, Serialize, Deserialize)]
pub struct Case {
    pub fi: usize,
    pub v: ND,
    pub tape: Vec<u8>,
}

fn kind_of_enum(v: &Narsese) -> u8 {
    match v {
        Narsese::Term(_) => 0,
        Narsese::Sentence(_) => 1,
        Narsese::Task(_) => 2,
    }
}
fn kind_of_lex(v: &lx::Narsese) -> u8 {
    match v {
        lx::Narsese::Term(_) => 0,
        lx::Narsese::Sentence(_) => 1,
        lx::Narsese::Task(_) => 2,
    }
}

fn parsed_kinds(fi: usize, text: &str) -> Result<(u8, u8, Narsese, lx::Narsese), Failure> {
    let e = match crate::pipes::enum_parse_raw(fi, text) {
        Ok(Ok(v)) => v,
        Ok(Err(e)) => return Err(Failure::new("classify:enum-parse-err", format!("text {text:?}\n{e}"))),
        Err(p) => return Err(Failure::new("classify:panic", format!("text {text:?}\n{p}"))),
    };
    let l = match crate::pipes::lexical_parse_raw(fi, text) {
        Ok(Ok(v)) => v,
        Ok(Err(e)) => return Err(Failure::new("classify:lexical-parse-err", format!("text {text:?}\n{e}"))),
        Err(p) => return Err(Failure::new("classify:panic", format!("text {text:?}\n{p}"))),
    };
    Ok((kind_of_enum(&e), kind_of_lex(&l), e, l))
}

pub fn check(sh: &Shared, c: &Case) -> Check {
    let fi = c.fi.min(2);
    if !c.v.term().arity_ok() {
        fail!("harness/bad-case", "description violates arity");
    }
    sh.eval();
    let f = fmts::e(fi);
    let v = build_n(&c.v);
    let want_kind = canon_nd(&c.v).kind;
    sh.class(&format!("kind/{}", c.v.kind_name()));
    sh.class(&format!("format/{}", fmts::FMT_NAMES[fi]));
    if want_kind > 0 {
        sh.nontrivial(fp(&(fi, &c.v)));
        sh.sample(&format!("{}/{}", c.v.kind_name(), fmts::FMT_NAMES[fi]), || json!({"format": fmts::FMT_NAMES[fi], "value": c.v}));
    }
    // 1. classification by both parsers
    let text = guard(|| f.format_narsese(&v)).map_err(|p| Failure::new("format:panic", p))?;
    let (ke, kl, _, lexv) = parsed_kinds(fi, &text)?;
    if ke != want_kind || kl != want_kind {
        fail!("classify:kind", "text {text:?}\nvalue kind {want_kind}, enum parser says {ke}, lexical parser says {kl} (0 term, 1 sentence, 2 task)");
    }
    // lexical value: task ⇔ budget present
    let lex_kind_from_lexical_value = kind_of_lex(&lexv);
    let _ = lex_kind_from_lexical_value;

    // 2. NarseseValue wrappers: matching accessor returns the value, others fail
    let is = [v.is_term(), v.is_sentence(), v.is_task()];
    let want_is = [want_kind == 0, want_kind == 1, want_kind == 2];
    if is != want_is {
        fail!("value:is_*", "is_term/is_sentence/is_task = {is:?} for kind {want_kind}");
    }
    let t = guard(|| v.clone().try_into_term()).map_err(|p| Failure::new("value:panic", p))?;
    let s = guard(|| v.clone().try_into_sentence()).map_err(|p| Failure::new("value:panic", p))?;
    let k = guard(|| v.clone().try_into_task()).map_err(|p| Failure::new("value:panic", p))?;
    if [t.is_ok(), s.is_ok(), k.is_ok()] != want_is {
        fail!("value:try_into", "try_into_term/sentence/task ok = {:?} for kind {want_kind}", [t.is_ok(), s.is_ok(), k.is_ok()]);
    }
    let expected = canon_nd(&c.v);
    if let Ok(x) = t {
        if canon_n(&Narsese::from_term(x)) != expected {
            fail!("value:unwrap-changed", "try_into_term(from_term(v)) != v");
        }
    }
    if let Ok(x) = s {
        if canon_n(&Narsese::from_sentence(x)) != expected {
            fail!("value:unwrap-changed", "try_into_sentence(from_sentence(v)) != v");
        }
    }
    if let Ok(x) = k {
        if canon_n(&Narsese::from_task(x)) != expected {
            fail!("value:unwrap-changed", "try_into_task(from_task(v)) != v");
        }
    }
    // the TryFrom impls agree with the accessors
    {
        use narsese::enum_narsese::{Sentence as S, Task as K, Term as T};
        let a = guard(|| T::try_from(v.clone()).is_ok()).map_err(|p| Failure::new("value:panic", p))?;
        let b = guard(|| S::try_from(v.clone()).is_ok()).map_err(|p| Failure::new("value:panic", p))?;
        let cc = guard(|| K::try_from(v.clone()).is_ok()).map_err(|p| Failure::new("value:panic", p))?;
        if [a, b, cc] != want_is {
            fail!("value:try_from", "Term/Sentence/Task::try_from(value) ok = {:?} for kind {want_kind}", [a, b, cc]);
        }
    }
    // try_into_task_compatible
    let tc = guard(|| v.clone().try_into_task_compatible()).map_err(|p| Failure::new("value:panic", p))?;
    match (&v, tc) {
        (Narsese::Term(_), Ok(_)) => fail!("compat:term-accepted", "try_into_task_compatible accepted a term"),
        (Narsese::Term(_), Err(_)) => {}
        (Narsese::Sentence(sen), Ok(task)) => {
            let want = sen.clone().cast_to_task();
            if canon_n(&Narsese::Task(task.clone())) != canon_n(&Narsese::Task(want)) || !task.get_budget().is_empty() {
                fail!("compat:sentence", "try_into_task_compatible(sentence) != cast_to_task(sentence): {task:?}");
            }
        }
        (Narsese::Task(_), Ok(task)) => {
            if canon_n(&Narsese::Task(task)) != expected {
                fail!("compat:task-changed", "try_into_task_compatible(task) changed the task");
            }
        }
        (_, Err(e)) => fail!("compat:rejected", "try_into_task_compatible rejected a sentence/task: {e}"),
    }
    // NarseseValue-level try_cast_to_sentence
    let nv = guard(|| v.clone().try_cast_to_sentence()).map_err(|p| Failure::new("value:panic", p))?;
    match (&v, nv) {
        (Narsese::Term(_), Err(back)) => {
            if canon_n(&back) != expected {
                fail!("value-cast:term-changed", "Err payload differs from the term");
            }
        }
        (Narsese::Term(_), Ok(_)) => fail!("value-cast:term-accepted", "try_cast_to_sentence accepted a term"),
        (Narsese::Sentence(_), Ok(back)) => {
            if canon_n(&back) != expected {
                fail!("value-cast:sentence-changed", "sentence changed");
            }
        }
        (Narsese::Sentence(_), Err(_)) => fail!("value-cast:sentence-rejected", "try_cast_to_sentence rejected a sentence"),
        (Narsese::Task(task), r) => {
            let empty = matches!(task.get_budget(), Budget::Empty);
            match r {
                Ok(back) => {
                    if !empty {
                        fail!("value-cast:budget-dropped", "a task with budget {:?} was cast to a sentence", task.get_budget());
                    }
                    let mut want = expected.clone();
                    want.kind = 1;
                    want.budget = None;
                    if canon_n(&back) != want || !back.is_sentence() {
                        fail!("value-cast:wrong-sentence", "cast result differs from the task's sentence");
                    }
                }
                Err(back) => {
                    if empty {
                        fail!("value-cast:empty-budget-rejected", "a task with empty budget was not cast to a sentence");
                    }
                    if canon_n(&back) != expected {
                        fail!("value-cast:task-changed", "Err payload differs from the task");
                    }
                }
            }
        }
    }

    // 3. sentence <-> task casts
    let sentence: Option<Sentence> = match &v {
        Narsese::Sentence(s) => Some(s.clone()),
        Narsese::Task(t) => Some(t.get_sentence().clone()),
        _ => None,
    };
    if let Some(s) = sentence {
        let cs = canon_sentence(&s);
        let task: Task = s.clone().cast_to_task();
        if !matches!(task.get_budget(), Budget::Empty) || canon_sentence(task.get_sentence()) != cs {
            fail!("cast:to-task", "cast_to_task(s) = {task:?}");
        }
        match guard(|| task.clone().try_cast_to_sentence()).map_err(|p| Failure::new("cast:panic", p))? {
            Ok(back) => {
                if canon_sentence(&back) != cs || !guard(|| back == s).unwrap_or(false) {
                    fail!("cast:roundtrip", "try_cast_to_sentence(cast_to_task(s)) != s\ns = {s:?}\nback = {back:?}");
                }
            }
            Err(_) => fail!("cast:roundtrip-rejected", "try_cast_to_sentence(cast_to_task(s)) is Err"),
        }
        // the cast task prints as a task with an empty budget — in every format, both parsers
        for g in 0..3 {
            // names are valid for format fi only; other formats are exercised by their own cases
            if g != fi {
                continue;
            }
            let text = guard(|| fmts::e(g).format_task(&task)).map_err(|p| Failure::new("format:panic", p))?;
            let (ke, kl, ev, lv) = parsed_kinds(g, &text)?;
            if ke != 2 || kl != 2 {
                fail!("cast:printed-kind", "format {}: a sentence cast to a task prints as {text:?}, which the enum parser classifies as {ke} and the lexical parser as {kl} (2 = task)", fmts::FMT_NAMES[g]);
            }
            if let Narsese::Task(t2) = &ev {
                if !matches!(t2.get_budget(), Budget::Empty) {
                    fail!("cast:printed-budget", "text {text:?} parses to budget {:?}", t2.get_budget());
                }
            }
            if let lx::Narsese::Task(t2) = &lv {
                if !t2.budget.is_empty() {
                    fail!("cast:printed-budget", "text {text:?} lexically parses to budget {:?}", t2.budget);
                }
            }
        }
    }
    if let Narsese::Task(task) = &v {
        let empty = matches!(task.get_budget(), Budget::Empty);
        match guard(|| task.clone().try_cast_to_sentence()).map_err(|p| Failure::new("cast:panic", p))? {
            Ok(s) => {
                if !empty {
                    fail!("cast:budget-dropped", "try_cast_to_sentence returned Ok for budget {:?}", task.get_budget());
                }
                if canon_sentence(&s) != canon_sentence(task.get_sentence()) {
                    fail!("cast:wrong-sentence", "returned sentence differs");
                }
            }
            Err(back) => {
                if empty {
                    fail!("cast:empty-budget-rejected", "try_cast_to_sentence returned Err for an empty budget");
                }
                if canon_n(&Narsese::Task(back)) != expected {
                    fail!("cast:task-changed", "the task handed back differs from the original");
                }
            }
        }
    }

    // 4. the same laws on the lexical model
    let lexical = lex_of_nd(fi, &c.v, &c.tape).to_lex();
    // the lexical formatter's text (numbers / fixed stamps also in their other legal spellings,
    // e.g. `1.0`, `.5`, `+5`) is classified the same way by both parsers
    {
        let text2 = guard(|| fmts::l(fi).format_narsese(&lexical)).map_err(|p| Failure::new("format:panic", p))?;
        let (ke, kl, _, _) = parsed_kinds(fi, &text2)?;
        if ke != want_kind || kl != want_kind {
            fail!("classify:kind", "text {text2:?} (lexical formatter)\nvalue kind {want_kind}, enum parser says {ke}, lexical parser says {kl} (0 term, 1 sentence, 2 task)");
        }
    }
    let lk = kind_of_lex(&lexical);
    if lk != want_kind {
        fail!("harness/lexical-kind", "lexical mirror has kind {lk}");
    }
    let lis = [lexical.is_term(), lexical.is_sentence(), lexical.is_task()];
    if lis != want_is {
        fail!("lexical-value:is_*", "{lis:?}");
    }
    let oks = [lexical.clone().try_into_term().is_ok(), lexical.clone().try_into_sentence().is_ok(), lexical.clone().try_into_task().is_ok()];
    if oks != want_is {
        fail!("lexical-value:try_into", "{oks:?}");
    }
    let lsen: Option<lx::Sentence> = match &lexical {
        lx::Narsese::Sentence(s) => Some(s.clone()),
        lx::Narsese::Task(t) => Some(t.sentence.clone()),
        _ => None,
    };
    if let Some(s) = lsen {
        let task = s.clone().cast_to_task();
        if !task.budget.is_empty() || task.sentence != s {
            fail!("lexical-cast:to-task", "{task:?}");
        }
        match task.clone().try_cast_to_sentence() {
            Ok(back) if back == s => {}
            other => fail!("lexical-cast:roundtrip", "{other:?}"),
        }
        // formatted cast task is a task for the lexical parser and folds to a task
        let text = guard(|| fmts::l(fi).format_task(&task)).map_err(|p| Failure::new("format:panic", p))?;
        match guard(|| fmts::l(fi).parse(&text)) {
            Ok(Ok(lx::Narsese::Task(t2))) if t2.budget.is_empty() => {
                match guard(|| lx::Narsese::Task(t2).try_fold_into(fmts::e(fi))) {
                    Ok(Ok(Narsese::Task(_))) => {}
                    other => fail!("lexical-cast:fold-kind", "text {text:?} folds to {other:?}"),
                }
            }
            other => fail!("lexical-cast:printed-kind", "text {text:?} parses to {other:?}"),
        }
    }
    if let lx::Narsese::Task(t) = &lexical {
        match t.clone().try_cast_to_sentence() {
            Ok(s) => {
                if !t.budget.is_empty() || s != t.sentence {
                    fail!("lexical-cast:budget-dropped", "{t:?}");
                }
            }
            Err(back) => {
                if t.budget.is_empty() || back != *t {
                    fail!("lexical-cast:rejected-or-changed", "{t:?}");
                }
            }
        }
    }
    Ok(())
}

#[derive(Clone, Debug, Serialize, Deserialize)]
pub struct FragCase {
    pub fi: usize,
    pub t: TD,
    /// which of the five items are written: 1 budget, 2 term (always set), 4 punctuation, 8 stamp, 16 truth
    pub mask: u8,
}

/// classification of PARTIAL inputs: task ⇔ budget ∧ term ∧ punctuation; sentence ⇔ term ∧
/// punctuation without budget; otherwise a term — identically in both parsers
pub fn check_fragment(sh: &Shared, c: &FragCase) -> Check {
    use crate::printer::{self, Printer, Style};
    use narsese::api::{GetBudget, GetPunctuation, GetStamp, GetTerm, GetTruth};
    let fi = c.fi.min(2);
    if !c.t.s.term.arity_ok() {
        fail!("harness/bad-case", "description violates arity");
    }
    sh.eval();
    let mask = c.mask | 2;
    let task = build_task(&c.t);
    let s = task.get_sentence();
    let mut p = Printer::new(fi, Style::Plain, &[]);
    if mask & 1 != 0 {
        p.budget(task.get_budget());
        p.gap(2);
    }
    p.term(s.get_term());
    if mask & 4 != 0 {
        p.punct(s.get_punctuation());
    }
    if mask & 8 != 0 {
        p.gap(2);
        p.stamp(s.get_stamp());
    }
    if mask & 16 != 0 {
        if let Some(tr) = s.get_truth() {
            p.gap(2);
            p.truth(tr);
        }
    }
    let text = printer::render(fi, &p.out);
    let want: u8 = if mask & 4 == 0 { 0 } else if mask & 1 != 0 { 2 } else { 1 };
    sh.class(&format!("fragment/mask{mask:02}"));
    sh.class(&format!("fragment/kind{want}"));
    if mask != 2 {
        sh.nontrivial(fp(&(fi, &text)));
        sh.sample(&format!("fragment/{}/{want}", fmts::FMT_NAMES[fi]), || json!({"format": fmts::FMT_NAMES[fi], "text": text, "expected_kind": want}));
    }
    let (ke, kl, _, _) = parsed_kinds(fi, &text)?;
    if ke != want || kl != want {
        fail!("classify:fragment-kind", "text {text:?} (items written: mask {mask:#07b})\nexpected kind {want}, enum parser says {ke}, lexical parser says {kl} (0 term, 1 sentence, 2 task)");
    }
    Ok(())
}

pub fn strategy_fragment() -> BoxedStrategy<FragCase> {
    gen::fmt_and(|fi| (gen::task_with(gen::term(gen::TermOpts { depth: 2, size: 8, deep_max: 0, ..gen::TermOpts::main(fi) })), 0u8..32).boxed())
        .prop_map(|(fi, (t, mask))| FragCase { fi, t, mask })
        .boxed()
}

pub fn small_scope() -> Vec<Case> {
    crate::props::c01::small_scope().into_iter().filter(|(_, nd)| !matches!(nd, ND::Term(_))).map(|(fi, v)| Case { fi, v, tape: vec![1, 2] }).collect()
}

pub fn strategy() -> BoxedStrategy<Case> {
    gen::fmt_and(|fi| (gen::narsese(gen::TermOpts { depth: 3, size: 12, ..gen::TermOpts::main(fi) }), gen::tape()).boxed())
        .prop_map(|(fi, (v, tape))| Case { fi, v, tape })
        .boxed()
}

pub fn streams() -> Vec<Box<dyn AnyStream>> {
    vec![
        Box::new(Stream::<Case> {
            name: "nested-pairs",
            quick: 0,
            thorough: 0,
            source: Source::Enum(Box::new(|_| Box::new(crate::props::c01::nested_pairs().into_iter().map(|(fi, v)| Case { fi, v, tape: vec![2, 1] })))),
            check: Box::new(check),
        }),
        Box::new(Stream::<Case> {
            name: "small-scope",
            quick: 0,
            thorough: 0,
            source: Source::Enum(Box::new(|_| Box::new(small_scope().into_iter()))),
            check: Box::new(check),
        }),
        Box::new(Stream::<FragCase> {
            name: "fragments",
            quick: 20_000,
            thorough: 1_000_000,
            source: Source::Gen(Box::new(strategy_fragment)),
            check: Box::new(check_fragment),
        }),
        Box::new(Stream::<Case> {
        name: "conversions",
        quick: 40_000,
        thorough: 2_000_000,
        source: Source::Gen(Box::new(strategy)),
        check: Box::new(check),
    })]
}

pub const PROP: Prop = Prop {
    id: "C15",
    rule: "cases = (format, well-formed enum term/sentence/task, tape) and the arity-valid lexical mirror of the same value; laws: kind(parse(format(v))) = kind(v) in the enum and the lexical parser; is_*/try_into_* succeed exactly for the matching kind and return the value; try_into_task_compatible; NarseseValue- and Task-level try_cast_to_sentence (Ok iff budget empty, otherwise the unchanged task back); cast_to_task round-trip; a sentence cast to a task prints as a task with empty budget for both parsers; the same laws on lexical values; stream fragments: partial inputs (any subset of budget / punctuation / stamp / truth around a term) must be classified by the stated rule by both parsers; small-scope: every decoration combination of C01's enumeration; non-trivial = sentence or task / a fragment with at least one item besides the term; distinct = fingerprint of (format, value)",
    assumptions: &["canonical form as in C01"],
    streams,
};
