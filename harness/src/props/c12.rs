//! C12 — values produced by parsing or folding are always well-formed.
use crate::desc::*;
use crate::engine::*;
use crate::fail;
use crate::fmts;
use crate::gen;
use crate::lexgen::*;
use crate::props::c04::in_bounds;
use crate::props::c05::{SCase, VCase};
use crate::strgen;
use crate::wf;
use narsese::conversion::inter_type::lexical_fold::TryFoldInto;
use narsese::enum_narsese::Narsese;
use proptest::prelude::*;
use serde_json::json;

fn norm(s: &str) -> String {
    s.chars().filter(|c| !c.is_whitespace()).collect()
}

pub fn check_string(sh: &Shared, c: &SCase) -> Check {
    let fi = c.fi.min(2);
    if !in_bounds(fi, &c.s) {
        fail!("harness/bad-case", "input exceeds the bounds");
    }
    let f = fmts::e(fi);
    let s = c.s.as_str();
    sh.eval();
    sh.class(&format!("source/{}", c.class));
    // stand-alone truth / budget parsers: an Ok value is in range too
    if let Ok(Ok(t)) = guard(|| f.parse::<narsese::enum_narsese::Truth>(s)) {
        sh.class("outcome/side-door-truth-ok");
        if let Err(e) = wf::truth_wf(&t) {
            fail!("ill-formed:truth-parser", "format {}\ninput {s:?}\nparse::<Truth> returned Ok, but: {e}", fmts::FMT_NAMES[fi]);
        }
    }
    if let Ok(Ok(b)) = guard(|| f.parse::<narsese::enum_narsese::Budget>(s)) {
        sh.class("outcome/side-door-budget-ok");
        if let Err(e) = wf::budget_wf(&b) {
            fail!("ill-formed:budget-parser", "format {}\ninput {s:?}\nparse::<Budget> returned Ok, but: {e}", fmts::FMT_NAMES[fi]);
        }
    }
    let r = guard(|| f.parse::<Narsese>(s));
    let v = match r {
        Err(_) => {
            // a panic is C04's violation; here the input simply produced no value
            sh.class("outcome/panic(C04)");
            return Ok(());
        }
        Ok(Err(_)) => {
            sh.class("outcome/rejected");
            return Ok(());
        }
        Ok(Ok(v)) => v,
    };
    sh.class(&format!("outcome/accepted/{}", fmts::FMT_NAMES[fi]));
    let canonical = guard(|| f.format_narsese(&v)).unwrap_or_default();
    if norm(&canonical) != norm(s) {
        sh.nontrivial(fp(&(fi, s)));
        sh.class("accepted/not-formatter-output");
        sh.sample(&format!("lenient/{}/{}", c.class, fmts::FMT_NAMES[fi]), || json!({"format": fmts::FMT_NAMES[fi], "input": s, "reads_as": canonical}));
    }
    // from here on a crash is this property's business (formatting an accepted value)
    sh.watch(|| json!({"stream": "strings", "case": c}));
    let formats = wf::formats_everywhere(&v);
    sh.unwatch();
    if let Err(e) = wf::narsese_wf(&v, true) {
        fail!("ill-formed:enum-parser", "format {}\ninput {s:?}\nreturned Ok, but: {e}\nvalue {v:?}", fmts::FMT_NAMES[fi]);
    }
    if let Err(e) = formats {
        fail!("unformattable:enum-parser", "input {s:?}\n{e}");
    }
    Ok(())
}

/// lexical parse + fold of a string; an Ok value must be well-formed (used by the fuzz target and a proptest stream)
pub fn check_lexical_string(sh: &Shared, c: &SCase) -> Check {
    let fi = c.fi.min(2);
    if !in_bounds(fi, &c.s) {
        fail!("harness/bad-case", "input exceeds the bounds");
    }
    sh.eval();
    let s = c.s.as_str();
    let r = guard(|| match fmts::l(fi).parse(s) {
        Err(_) => None,
        Ok(x) => x.try_fold_into(fmts::e(fi)).ok(),
    });
    let v = match r {
        Err(_) => {
            sh.class("outcome/panic(C05)");
            return Ok(());
        }
        Ok(None) => {
            sh.class("outcome/rejected");
            return Ok(());
        }
        Ok(Some(v)) => v,
    };
    sh.class(&format!("outcome/lexically-accepted/{}", fmts::FMT_NAMES[fi]));
    let canonical = guard(|| fmts::e(fi).format_narsese(&v)).unwrap_or_default();
    if norm(&canonical) != norm(s) {
        sh.nontrivial(fp(&(fi, s, "lexical")));
        sh.class("lexically-accepted/not-formatter-output");
    }
    if let Err(e) = wf::narsese_wf(&v, false) {
        fail!("ill-formed:lexical-pipeline", "format {}\ninput {s:?}\nlexical parse + fold returned Ok, but: {e}\nvalue {v:?}", fmts::FMT_NAMES[fi]);
    }
    if let Err(e) = wf::formats_everywhere(&v) {
        fail!("unformattable:lexical-pipeline", "input {s:?}\n{e}");
    }
    Ok(())
}

pub fn check_value(sh: &Shared, c: &VCase) -> Check {
    sh.class(&format!("source/{}", c.class));
    for fi in 0..3 {
        sh.eval();
        let lex = c.x.to_lex();
        let v = match guard(|| lex.try_fold_into(fmts::e(fi))) {
            Err(_) => {
                sh.class("outcome/panic(C05)");
                continue;
            }
            Ok(Err(_)) => {
                sh.class("outcome/rejected");
                continue;
            }
            Ok(Ok(v)) => v,
        };
        sh.class(&format!("outcome/folded/{}", fmts::FMT_NAMES[fi]));
        // non-trivial: the folded value is not what an arity-valid description would give back
        let l = fmts::l(fi);
        let text = guard(|| l.format_narsese(&c.x.to_lex())).unwrap_or_default();
        let back = guard(|| fmts::e(fi).format_narsese(&v)).unwrap_or_default();
        if norm(&text) != norm(&back) {
            sh.nontrivial(fp(&(fi, &c.x)));
            sh.class("folded/not-formatter-output");
            sh.sample(&format!("fold/{}/{}", c.class, fmts::FMT_NAMES[fi]), || json!({"format": fmts::FMT_NAMES[fi], "lexical": text, "folds_to": back}));
        }
        if let Err(e) = wf::narsese_wf(&v, false) {
            fail!("ill-formed:fold", "enum format {}\nlexical value {:?}\nfold returned Ok, but: {e}\nvalue {v:?}", fmts::FMT_NAMES[fi], c.x);
        }
        if let Err(e) = wf::formats_everywhere(&v) {
            fail!("unformattable:fold", "lexical value {:?}\n{e}", c.x);
        }
    }
    Ok(())
}

pub fn strategy_strings() -> BoxedStrategy<SCase> {
    // biased to near-valid text so that a useful fraction is accepted
    gen::fmt_and(|fi| {
        prop_oneof![
            30 => strgen::soup(fi).prop_map(|s| ("soup".to_string(), s)),
            45 => strgen::mutated(fi).prop_map(|s| ("mutated".to_string(), s)),
            10 => strgen::nests(fi).prop_map(|s| ("nests".to_string(), s)),
            5 => strgen::unicode(fi).prop_map(|s| ("unicode".to_string(), s)),
            10 => strgen::value_text(fi).prop_map(move |s| ("valid".to_string(), strgen::clip(fi, &s))),
        ]
        .boxed()
    })
    .prop_map(|(fi, (class, s))| SCase { fi, class, s })
    .boxed()
}

pub fn strategy_values() -> BoxedStrategy<VCase> {
    gen::fmt_and(|fi| {
        prop_oneof![
            25 => wild_value(fi).prop_map(|x| ("wild".to_string(), x)),
            75 => near_valid_value(fi).prop_map(|x| ("near-valid".to_string(), x)),
        ]
        .boxed()
    })
    .prop_map(|(_, (class, x))| VCase { class, x })
    .boxed()
}

pub fn streams() -> Vec<Box<dyn AnyStream>> {
    vec![
        Box::new(Stream::<SCase> {
            name: "token-sequences",
            quick: 0,
            thorough: 0,
            source: Source::Enum(Box::new(|tier| Box::new(strgen::token_space(tier == Tier::Thorough).map(|(fi, s)| SCase { fi, class: "tokens".into(), s })))),
            check: Box::new(check_string),
        }),
        Box::new(Stream::<SCase> {
            name: "token-sequences-lexical",
            quick: 0,
            thorough: 0,
            source: Source::Enum(Box::new(|tier| Box::new(strgen::token_space(tier == Tier::Thorough).map(|(fi, s)| SCase { fi, class: "tokens".into(), s })))),
            check: Box::new(check_lexical_string),
        }),
        Box::new(Stream::<SCase> {
            name: "strings",
            quick: 60_000,
            thorough: 3_000_000,
            source: Source::Gen(Box::new(strategy_strings)),
            check: Box::new(check_string),
        }),
        Box::new(Stream::<SCase> {
            name: "lexical-strings",
            quick: 30_000,
            thorough: 1_500_000,
            source: Source::Gen(Box::new(strategy_strings)),
            check: Box::new(check_lexical_string),
        }),
        Box::new(Stream::<VCase> {
            name: "decoration-fields",
            quick: 0,
            thorough: 0,
            source: Source::Enum(Box::new(|_| Box::new(decoration_space().into_iter().map(|x| VCase { class: "decoration".into(), x })))),
            check: Box::new(check_value),
        }),
        Box::new(Stream::<VCase> {
            name: "values",
            quick: 30_000,
            thorough: 1_000_000,
            source: Source::Gen(Box::new(strategy_values)),
            check: Box::new(check_value),
        }),
    ]
}

pub const PROP: Prop = Prop {
    id: "C12",
    rule: "stream strings: garbage and near-valid strings (soup / mutations / nests / Unicode / valid) through the enum parser; on every Ok(v): truth/budget in [0,1], image index ≤ components, non-placeholder atom names non-empty, no compound or set without components; then all three formatters and Typst must not panic. stream values: wild and near-valid lexical values folded with each enum format; on Ok(v) the same predicate without the non-empty clause. non-trivial = an ACCEPTED input whose text differs (modulo whitespace) from what the formatter emits for the returned value; distinct = fingerprint of (format, input)",
    assumptions: &["negation/difference arity is guaranteed by the enum type itself; a panic while parsing/folding is C04/C05's violation and only counted here"],
    streams,
};
