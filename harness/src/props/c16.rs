//! C16 — Typst rendering is total, whitespace-normalised and unambiguous.
use crate::desc::*;
use crate::engine::*;
use crate::fail;
use crate::gen;
use crate::plan::*;
use narsese::api::{GetBudget, GetPunctuation, GetStamp, GetTerm, GetTruth};
use narsese::conversion::string::typst_formatter::FormatterTypst;
use narsese::enum_narsese::{Narsese, Term};
use proptest::prelude::*;
use serde::{Deserialize, Serialize};
use serde_json::json;
use std::collections::HashMap;

#[derive(Clone, Debug, Serialize, Deserialize)]
pub enum DecorEdit {
    None,
    Punct(u8),
    Stamp(St),
    TruthLen(u8),
    TruthNum(u8, F),
    BudgetLen(u8),
    BudgetNum(u8, F),
    /// move one number by one unit in the last place (near-miss numbers)
    TruthUlp(u8),
    BudgetUlp(u8),
    Kind(u8),
    /// move a fixed time by one (near-miss stamps: at large magnitudes only the last digit differs)
    StampStep(bool),
}

#[derive(Clone, Debug, Serialize, Deserialize)]
pub struct Case {
    pub a: ND,
    pub edit: Edit,
    pub decor: DecorEdit,
    pub other: ND,
    pub t1: Vec<u8>,
    pub t2: Vec<u8>,
}

fn typst_term(t: &Term) -> Result<String, Failure> {
    guard(|| FormatterTypst.format(t)).map_err(|p| Failure::new("typst:panic", format!("rendering a term panicked: {p}\nterm {:?}", desc_of(t))))
}

fn typst_n(v: &Narsese) -> Result<String, Failure> {
    guard(|| match v {
        Narsese::Term(t) => FormatterTypst.format(t),
        Narsese::Sentence(s) => FormatterTypst.format(s),
        Narsese::Task(t) => FormatterTypst.format(t),
    })
    .map_err(|p| Failure::new("typst:panic", format!("rendering panicked: {p}")))
}

fn ws_ok(what: &str, s: &str) -> Check {
    if s.trim() != s {
        fail!("typst:not-trimmed", "{what}: leading/trailing whitespace in {s:?}");
    }
    let cs: Vec<char> = s.chars().collect();
    for w in cs.windows(2) {
        if w[0].is_whitespace() && w[1].is_whitespace() {
            fail!("typst:double-whitespace", "{what}: two adjacent whitespace characters in {s:?}");
        }
    }
    Ok(())
}

/// canonical text: the real rendering with unordered components (and symmetric operands)
/// re-ordered by their own canonical texts. The frame is learnt from the implementation's
/// own output by splitting it along the components' renderings. None = inconclusive.
pub fn ctext(t: &Term) -> Result<Option<String>, Failure> {
    let k = kind_of(t);
    let real = typst_term(t)?;
    if k.is_atom() {
        return Ok(Some(real));
    }
    let comps: Vec<&Term> = t.get_components_including_placeholder();
    let mut subs_real = vec![];
    let mut subs_canon = vec![];
    for c in &comps {
        subs_real.push(typst_term(c)?);
        match ctext(c)? {
            Some(x) => subs_canon.push(x),
            None => return Ok(None),
        }
    }
    let mut pieces: Vec<&str> = vec![];
    let mut pos = 0usize;
    for s in &subs_real {
        if s.is_empty() {
            return Ok(None);
        }
        match real[pos..].find(s.as_str()) {
            Some(i) => {
                pieces.push(&real[pos..pos + i]);
                pos += i + s.len();
            }
            None => return Ok(None),
        }
    }
    pieces.push(&real[pos..]);
    if k.is_set_like() || k.is_sym_statement() {
        subs_canon.sort();
    }
    let mut out = String::new();
    for (i, p) in pieces.iter().enumerate() {
        out.push_str(p);
        if i < subs_canon.len() {
            out.push_str(&subs_canon[i]);
        }
    }
    Ok(Some(out))
}

pub fn ctext_n(v: &Narsese) -> Result<Option<String>, Failure> {
    let real = typst_n(v)?;
    let term = v.get_term();
    let tr = typst_term(term)?;
    let Some(tc) = ctext(term)? else { return Ok(None) };
    match real.find(tr.as_str()) {
        Some(i) => Ok(Some(format!("{}{}{}", &real[..i], tc, &real[i + tr.len()..]))),
        None => Ok(None),
    }
}

fn build_nd(v: &ND, tape: &[u8], offset: usize) -> Narsese {
    let mut tp = Tape::new(tape, offset);
    let t = build_plan(v.term(), &mut tp);
    let t = if canon_t(&t) == canon_d(v.term()) { t } else { build_raw(v.term()) };
    match v {
        ND::Term(_) => Narsese::Term(t),
        ND::Sentence(s) => Narsese::Sentence(build_sentence_with(s, t)),
        ND::Task(td) => Narsese::Task(narsese::enum_narsese::Task(build_sentence_with(&td.s, t), build_budget(&td.budget))),
    }
}

pub fn apply_decor(v: &ND, e: &DecorEdit) -> ND {
    let mut out = v.clone();
    fn sen(v: &mut ND) -> Option<&mut SD> {
        match v {
            ND::Term(_) => None,
            ND::Sentence(s) => Some(s),
            ND::Task(t) => Some(&mut t.s),
        }
    }
    match e {
        DecorEdit::None => {}
        DecorEdit::Punct(i) => {
            if let Some(s) = sen(&mut out) {
                let cur = ALL_P.iter().position(|p| *p == s.punct).unwrap_or(0);
                s.punct = ALL_P[(cur + 1 + (*i as usize) % 3) % 4];
                if matches!(s.punct, P::Question | P::Quest) {
                    s.truth.clear();
                }
            }
        }
        DecorEdit::Stamp(st) => {
            if let Some(s) = sen(&mut out) {
                s.stamp = if s.stamp == *st { St::Fixed(12345) } else { *st };
            }
        }
        DecorEdit::StampStep(up) => {
            if let Some(s) = sen(&mut out) {
                if let St::Fixed(t) = s.stamp {
                    s.stamp = St::Fixed(if (*up && t < isize::MAX) || t == isize::MIN { t + 1 } else { t - 1 });
                }
            }
        }
        DecorEdit::TruthLen(n) => {
            if let Some(s) = sen(&mut out) {
                if matches!(s.punct, P::Judgement | P::Goal) {
                    let n = (*n as usize) % 3;
                    let n = if n == s.truth.len() { (n + 1) % 3 } else { n };
                    s.truth.resize(n, F::of(0.5));
                }
            }
        }
        DecorEdit::TruthNum(i, x) => {
            if let Some(s) = sen(&mut out) {
                if !s.truth.is_empty() {
                    let k = (*i as usize) % s.truth.len();
                    s.truth[k] = if s.truth[k] == *x { F::of(0.123) } else { *x };
                }
            }
        }
        DecorEdit::TruthUlp(i) => {
            if let Some(s) = sen(&mut out) {
                if !s.truth.is_empty() {
                    let k = (*i as usize) % s.truth.len();
                    let x = s.truth[k].f();
                    s.truth[k] = F::of(if x >= 1.0 { f64::from_bits(x.to_bits() - 1) } else { f64::from_bits(x.to_bits() + 1) });
                }
            }
        }
        DecorEdit::BudgetUlp(i) => {
            if let ND::Task(t) = &mut out {
                if !t.budget.is_empty() {
                    let k = (*i as usize) % t.budget.len();
                    let x = t.budget[k].f();
                    t.budget[k] = F::of(if x >= 1.0 { f64::from_bits(x.to_bits() - 1) } else { f64::from_bits(x.to_bits() + 1) });
                }
            }
        }
        DecorEdit::BudgetLen(n) => {
            if let ND::Task(t) = &mut out {
                let n = (*n as usize) % 4;
                let n = if n == t.budget.len() { (n + 1) % 4 } else { n };
                t.budget.resize(n, F::of(0.5));
            }
        }
        DecorEdit::BudgetNum(i, x) => {
            if let ND::Task(t) = &mut out {
                if !t.budget.is_empty() {
                    let k = (*i as usize) % t.budget.len();
                    t.budget[k] = if t.budget[k] == *x { F::of(0.321) } else { *x };
                }
            }
        }
        DecorEdit::Kind(i) => {
            out = match (&out, i % 2) {
                (ND::Term(d), 0) => ND::Sentence(SD { term: d.clone(), punct: P::Judgement, stamp: St::Eternal, truth: vec![] }),
                (ND::Term(d), _) => ND::Task(TD { s: SD { term: d.clone(), punct: P::Question, stamp: St::Eternal, truth: vec![] }, budget: vec![] }),
                (ND::Sentence(s), 0) => ND::Term(s.term.clone()),
                (ND::Sentence(s), _) => ND::Task(TD { s: s.clone(), budget: vec![] }),
                (ND::Task(t), 0) => ND::Sentence(t.s.clone()),
                (ND::Task(t), _) => ND::Term(t.s.term.clone()),
            };
        }
    }
    out
}

pub fn check(sh: &Shared, c: &Case) -> Check {
    if !c.a.term().arity_ok() || !c.other.term().arity_ok() {
        fail!("harness/bad-case", "description violates arity");
    }
    sh.eval();
    sh.class(&format!("kind/{}", c.a.kind_name()));
    let va = build_nd(&c.a, &c.t1, 0);
    let ra = typst_n(&va)?;
    ws_ok("value", &ra)?;
    // determinism: same instance twice, and a clone
    let again = typst_n(&va)?;
    let cl = typst_n(&va.clone())?;
    if again != ra || cl != ra {
        fail!("typst:not-deterministic", "same instance rendered differently\nfirst  {ra:?}\nsecond {again:?}\nclone  {cl:?}");
    }
    // the parts render, trimmed, too
    match &va {
        Narsese::Term(_) => {}
        Narsese::Sentence(_) | Narsese::Task(_) => {
            let (p, s, t) = match &va {
                Narsese::Sentence(x) => (x.get_punctuation().clone(), x.get_stamp().clone(), x.get_truth().cloned()),
                Narsese::Task(x) => (x.get_punctuation().clone(), x.get_stamp().clone(), x.get_truth().cloned()),
                _ => unreachable!(),
            };
            let rp = guard(|| FormatterTypst.format(&p)).map_err(|e| Failure::new("typst:panic", e))?;
            ws_ok("punctuation", &rp)?;
            let rs = guard(|| FormatterTypst.format(&s)).map_err(|e| Failure::new("typst:panic", e))?;
            ws_ok("stamp", &rs)?;
            if let Some(t) = t {
                let rt = guard(|| FormatterTypst.format(&t)).map_err(|e| Failure::new("typst:panic", e))?;
                ws_ok("truth", &rt)?;
            }
            if let Narsese::Task(x) = &va {
                let rb = guard(|| FormatterTypst.format(x.get_budget())).map_err(|e| Failure::new("typst:panic", e))?;
                ws_ok("budget", &rb)?;
            }
        }
    }
    ws_ok("term", &typst_term(va.get_term())?)?;

    let mut a2 = c.a.clone();
    *a2.term_mut() = apply_edit(c.a.term(), &c.edit);
    let a2 = apply_decor(&a2, &c.decor);
    let ca = canon_nd(&c.a);
    // the canonical text costs O(depth²) renderings: very deep terms are compared on exact text only
    let shallow = |v: &ND| v.term().depth() <= 40;
    let cta = if shallow(&c.a) { ctext_n(&va)? } else { None };
    if !shallow(&c.a) {
        sh.class("deep/exact-text-only");
    }
    if cta.is_none() && shallow(&c.a) {
        sh.class("inconclusive/frame-not-learnable");
    }
    for (label, w) in [("edit", &a2), ("same", &c.a), ("other", &c.other)] {
        let cw = canon_nd(w);
        let equal = ca == cw;
        if label == "edit" {
            sh.class(if equal { "pair/edit-neutral" } else { "pair/edit-semantic" });
            if !equal {
                sh.nontrivial(fp(&(&c.a, &c.edit, &c.decor)));
                sh.sample(&format!("pair/{}", c.a.kind_name()), || json!({"a": c.a, "b": w}));
            }
        }
        for rep in 0..8usize {
            let vw = build_nd(w, &c.t2, rep * 3 + 1);
            let rw = typst_n(&vw)?;
            ws_ok("value", &rw)?;
            if !equal && rw == ra {
                fail!("typst:collision", "two semantically different values render to the same text\ntext {ra:?}\na = {:?}\nb = {:?}", c.a, w);
            }
            let ctw = if shallow(w) && shallow(&c.a) { ctext_n(&vw)? } else { None };
            match (&cta, &ctw) {
                (Some(x), Some(y)) => {
                    if equal && x != y {
                        fail!("typst:equal-values-differ", "semantically equal values differ beyond the order of unordered components\ncanonical a {x:?}\ncanonical b {y:?}\na = {:?}\nb = {:?}", c.a, w);
                    }
                    if !equal && x == y {
                        fail!("typst:canonical-collision", "two semantically different values have the same canonical rendering\ntext {x:?}\na = {:?}\nb = {:?}", c.a, w);
                    }
                }
                _ => {
                    if shallow(w) && shallow(&c.a) {
                        sh.class("inconclusive/frame-not-learnable");
                    }
                }
            }
            if rep >= 1 && (label == "other" || !has_unordered(w)) {
                break;
            }
        }
    }
    Ok(())
}

fn has_unordered(v: &ND) -> bool {
    v.term().any(&|x| x.k.is_set_like() && x.kids.len() >= 2)
}

/// small-scope exhaustive table: canonical rendering → canonical value must be a function
pub fn check_table(sh: &Shared, _c: &u8) -> Check {
    let atoms = vec![D::word("a"), D::word("b"), D::atom(IVar, "a"), D::atom(DVar, "a"), D::atom(QVar, "a"), D::atom(Op, "a"), D::interval(1), D::word("1"), D::placeholder()];
    let mut level1: Vec<D> = atoms.clone();
    let base: Vec<D> = vec![D::word("a"), D::word("b"), D::atom(IVar, "a"), D::interval(1), D::placeholder()];
    fn lists(pool: &[D], len: usize) -> Vec<Vec<D>> {
        if len == 0 {
            return vec![vec![]];
        }
        let mut out = vec![];
        for l in lists(pool, len - 1) {
            for a in pool {
                let mut l2 = l.clone();
                l2.push(a.clone());
                out.push(l2);
            }
        }
        out
    }
    let mk = |pool: &[D], maxlen: usize| -> Vec<D> {
        let mut out = vec![];
        for k in ALL_KINDS {
            if k.is_atom() {
                continue;
            }
            for len in 1..=maxlen {
                for l in lists(pool, len) {
                    let ok = if k == Neg { len == 1 } else if k.is_binary_ordered() || k.is_sym_statement() { len == 2 } else { true };
                    if !ok {
                        continue;
                    }
                    if k.is_image() {
                        if l.iter().any(|x| x.k == Placeholder) {
                            continue;
                        }
                        for i in 0..=len {
                            out.push(D::image(k, i, l.clone()));
                        }
                    } else {
                        out.push(D::node(k, l));
                    }
                }
            }
        }
        out
    };
    let depth2 = mk(&base, 3);
    level1.extend(depth2.iter().cloned());
    // depth 3: compounds over a few depth-2 terms and atoms, ≤ 2 components
    let mut pool3: Vec<D> = vec![D::word("a"), D::placeholder()];
    pool3.extend(depth2.iter().filter(|d| d.kids.len() <= 2).step_by(37).cloned());
    let depth3 = mk(&pool3, 2);
    level1.extend(depth3);
    let mut table: HashMap<String, C> = HashMap::new();
    let mut exact: HashMap<String, C> = HashMap::new();
    for d in &level1 {
        let t = build_raw(d);
        let canon = canon_d(d);
        sh.eval();
        let r = typst_term(&t)?;
        ws_ok("term", &r)?;
        if let Some(prev) = exact.get(&r) {
            if *prev != canon {
                fail!("typst:collision", "table: two different terms render to {r:?}\nfirst  {prev:?}\nsecond {canon:?}");
            }
        } else {
            exact.insert(r, canon.clone());
        }
        match ctext(&t)? {
            None => sh.class("inconclusive/frame-not-learnable"),
            Some(x) => {
                if let Some(prev) = table.get(&x) {
                    if *prev != canon {
                        fail!("typst:canonical-collision", "table: two different terms have canonical rendering {x:?}\nfirst  {prev:?}\nsecond {canon:?}");
                    }
                } else {
                    sh.nontrivial(crate::desc::fp_str(&x));
                    table.insert(x, canon);
                }
            }
        }
    }
    sh.class_n("table/terms", level1.len() as u64);
    sh.class_n("table/distinct-canonical-renderings", table.len() as u64);
    Ok(())
}

fn decor() -> BoxedStrategy<DecorEdit> {
    prop_oneof![
        34 => Just(DecorEdit::None),
        6 => any::<bool>().prop_map(DecorEdit::StampStep),
        10 => any::<u8>().prop_map(DecorEdit::Punct),
        10 => gen::stamp().prop_map(DecorEdit::Stamp),
        8 => any::<u8>().prop_map(DecorEdit::TruthLen),
        8 => (any::<u8>(), gen::unit()).prop_map(|(i, x)| DecorEdit::TruthNum(i, x)),
        8 => any::<u8>().prop_map(DecorEdit::BudgetLen),
        8 => (any::<u8>(), gen::unit()).prop_map(|(i, x)| DecorEdit::BudgetNum(i, x)),
        8 => any::<u8>().prop_map(DecorEdit::Kind),
        5 => any::<u8>().prop_map(DecorEdit::TruthUlp),
        5 => any::<u8>().prop_map(DecorEdit::BudgetUlp),
    ]
    .boxed()
}

pub fn strategy() -> BoxedStrategy<Case> {
    let o = gen::TermOpts { weights: gen::W_SETS, depth: 3, size: 14, deep_max: 90, ..gen::TermOpts::main(0) };
    (gen::narsese(o), gen::edit(0), decor(), gen::narsese(o), gen::tape(), gen::tape())
        .prop_map(|(a, edit, decor, other, t1, t2)| {
            // a pure decoration edit keeps the term: make the term edit a no-op in half of those cases
            Case { a, edit, decor, other, t1, t2 }
        })
        .boxed()
}

pub fn streams() -> Vec<Box<dyn AnyStream>> {
    vec![
        Box::new(Stream::<u8> {
            name: "table",
            quick: 0,
            thorough: 0,
            source: Source::Enum(Box::new(|_| Box::new(vec![0u8].into_iter()))),
            check: Box::new(check_table),
        }),
        Box::new(Stream::<Case> {
            name: "pairs",
            quick: 8_000,
            thorough: 400_000,
            source: Source::Gen(Box::new(strategy)),
            check: Box::new(check),
        }),
    ]
}

pub const PROP: Prop = Prop {
    id: "C16",
    rule: "stream pairs: (value a, one semantic edit of its term and/or decoration, independent value, two tapes): rendering returns, is trimmed, has no two adjacent whitespace chars (also for the stand-alone truth/budget/stamp/punctuation/term), is deterministic; for pairs: semantically different ⇒ different exact text (second value rebuilt up to 8 times with fresh hashers) and different canonical text; semantically equal ⇒ equal canonical text (canonical text = the real rendering with unordered components re-ordered; the frame is learnt from the implementation by splitting its output along the component renderings). stream table: all terms of depth ≤ 2 over 5 atoms with ≤ 3 components plus a depth-3 sample, canonical rendering → value must be a function. non-trivial = pair differing by a semantic edit / a distinct table entry",
    assumptions: &["markup strings are never compared with constants: only equality between renderings matters", "if a component rendering cannot be located in its parent's rendering the case is inconclusive"],
    streams,
};
