//! C03 — direct enum parsing and lexical parsing + folding give the same value.
use crate::desc::*;
use crate::engine::*;
use crate::fail;
use crate::fmts;
use crate::gen;
use crate::pipes::*;
use crate::printer::{self, Style};
use proptest::prelude::*;
use serde::{Deserialize, Serialize};
use serde_json::json;

#[derive(Clone, Debug, Serialize, Deserialize)]
pub struct Case {
    pub fi: usize,
    pub v: ND,
    /// 0 = the enum formatter's own text, 1 = token printer with derived-copula sugar,
    /// 2 = the LEXICAL formatter on the arity-valid lexical mirror (number / stamp spelling variants)
    pub source: u8,
    pub tape: Vec<u8>,
}

pub fn compare(sh: &Shared, fi: usize, text: &str, expected: Option<&CN>) -> Check {
    let e = enum_parse(fi, text);
    let l = lexical_fold(fi, text);
    let exp = expected.map(|c| format!("{c:?}")).unwrap_or_else(|| "(unknown)".into());
    match (&e, &l) {
        (Out::Panic(p), _) => fail!("enum:panic", "text {text:?}\npanic {p}"),
        (_, Out::Panic(p)) => fail!("lexical:panic", "text {text:?}\npanic {p}"),
        (Out::Ok(a), Out::Ok(b)) => {
            if a != b {
                fail!("pipelines:differ", "text {text:?}\nenum parser      {a:?}\nlexical + fold   {b:?}\nsource value     {exp}");
            }
            if let Some(x) = expected {
                if a != x {
                    fail!("pipelines:both-wrong", "text {text:?}\nboth pipelines   {a:?}\nsource value     {x:?}");
                }
            }
            sh.class("outcome/agree");
            Ok(())
        }
        (Out::Err(a), Out::Ok(_)) => fail!("enum:err", "text {text:?}\nenum parser fails: {a}\nlexical + fold: {}", l.short()),
        (Out::Ok(_), Out::Err(b)) => fail!("lexical:err", "text {text:?}\nlexical pipeline fails: {b}\nenum parser: {}", e.short()),
        (Out::Err(a), Out::Err(b)) => fail!("both:err", "text {text:?}\nenum parser fails: {a}\nlexical pipeline fails: {b}"),
    }
}

pub fn check(sh: &Shared, c: &Case) -> Check {
    let fi = c.fi.min(2);
    if !c.v.term().arity_ok() {
        fail!("harness/bad-case", "description violates arity");
    }
    sh.eval();
    let v = build_n(&c.v);
    let expected = canon_nd(&c.v);
    let f = fmts::e(fi);
    let nontrivial = !c.v.term().k.is_atom();
    sh.class(&format!("format/{}", fmts::FMT_NAMES[fi]));
    let text = if c.source == 0 {
        sh.class("source/formatter");
        match guard(|| f.format_narsese(&v)) {
            Ok(s) => s,
            Err(p) => fail!("format:panic", "format_narsese panicked: {p}"),
        }
    } else if c.source == 2 {
        sh.class("source/lexical-formatter");
        let lexv = crate::lexgen::lex_of_nd(fi, &c.v, &c.tape).to_lex();
        match guard(|| fmts::l(fi).format_narsese(&lexv)) {
            Ok(s) => s,
            Err(p) => fail!("format:panic", "lexical format_narsese panicked: {p}"),
        }
    } else {
        // sanity gate: my plain rendition must equal the formatter's output exactly
        match guard(|| printer::gate_exact(fi, &v)) {
            Ok(true) => {}
            _ => {
                sh.class("inconclusive/printer-desync");
                return Ok(());
            }
        }
        let (toks, used) = printer::tokens(fi, &v, Style::Sugar, &c.tape);
        sh.class("source/sugar-printer");
        for u in &used {
            sh.class(&format!("sugar/{u}/{}", fmts::FMT_NAMES[fi]));
        }
        if used.is_empty() {
            sh.class("sugar/none-applicable");
        }
        printer::render(fi, &toks)
    };
    if nontrivial {
        sh.nontrivial(fp(&(fi, &text)));
        sh.sample(&format!("{}/{}", match c.source { 0 => "formatter", 1 => "sugar", _ => "lexical-formatter" }, fmts::FMT_NAMES[fi]), || json!({"format": fmts::FMT_NAMES[fi], "text": text}));
    }
    c.v.term().visit(&mut |d| {
        if !d.k.is_atom() {
            sh.class(&format!("has/{:?}", d.k));
        }
    });
    compare(sh, fi, &text, Some(&expected))
}

/// generator biased so that sugar shapes are common: singleton sets around inheritance operands
fn sugar_friendly(fi: usize) -> BoxedStrategy<D> {
    let o = gen::TermOpts { depth: 3, size: 16, ..gen::TermOpts::main(fi) };
    let inner = gen::term(o);
    prop_oneof![
        50 => gen::term(gen::TermOpts::main(fi)),
        15 => (inner.clone(), inner.clone()).prop_map(|(s, p)| D::node(Inh, vec![D::node(SetExt, vec![s]), p])),
        15 => (inner.clone(), inner.clone()).prop_map(|(s, p)| D::node(Inh, vec![s, D::node(SetInt, vec![p])])),
        10 => (inner.clone(), inner.clone()).prop_map(|(s, p)| D::node(Inh, vec![D::node(SetExt, vec![s]), D::node(SetInt, vec![p])])),
        10 => (inner.clone(), inner).prop_map(|(s, p)| D::node(EquPred, vec![s, p])),
    ]
    .boxed()
}

pub fn strategy() -> BoxedStrategy<Case> {
    gen::fmt_and(|fi| (gen::narsese_with(sugar_friendly(fi)), 0u8..3, gen::tape()).boxed())
        .prop_map(|(fi, (v, source, tape))| Case { fi, v, source, tape })
        .boxed()
}

pub fn small_scope() -> Vec<Case> {
    // every constructor once per format and source, flat operands
    let mut out = vec![];
    for (fi, nd) in crate::props::c01::small_scope() {
        for source in 0..3u8 {
            out.push(Case { fi, v: nd.clone(), source, tape: vec![1, 2, 3] });
        }
    }
    out
}

/// long texts: the same comparison on inputs of 3 000 … 100 000 characters (flat and wide,
/// deeply nested, one long name, many decorations are all ordinary values, only large)
pub fn long_texts(thorough: bool) -> Vec<Case> {
    // the lexical parser's cost grows with the square of the length (≈ 2.5 s at 20 000 and
    // ≈ 35 s at 70 000 characters), so the quick tier has one 70 000-character case only
    let mut out = vec![];
    let targets: &[usize] = if thorough { &[3_000, 20_000, 70_000, 100_000] } else { &[3_000, 20_000, 70_000] };
    for fi in 0..3usize {
        for &t in targets {
            let big = t > 20_000;
            if big && !thorough && fi != fmts::LATEX {
                continue;
            }
            // wide ordered / unordered compounds of small atoms ("a123" + separator ≈ 6–8 chars)
            let n = t / 7;
            let kids: Vec<D> = (0..n).map(|i| D::word(&format!("a{i}"))).collect();
            out.push(Case { fi, v: ND::Term(D::node(Product, kids.clone())), source: 0, tape: vec![] });
            if big && !thorough {
                continue;
            }
            out.push(Case { fi, v: ND::Sentence(SD { term: D::node(Conj, kids), punct: P::Judgement, stamp: St::Present, truth: vec![F::of(1.0), F::of(0.9)] }), source: 0, tape: vec![] });
            // one long name
            let name: String = "name".chars().cycle().take(t).collect();
            out.push(Case { fi, v: ND::Term(D::node(Inh, vec![D::word(&name), D::word("b")])), source: 0, tape: vec![] });
            // nesting: singleton sets (brackets of 1–8 chars per level in the three formats)
            let per = [2usize, 15, 2][fi];
            let depth = (t / per).min(6_000);
            let mut cur = D::word("x");
            for _ in 0..depth {
                cur = D::node(SetExt, vec![cur]);
            }
            out.push(Case { fi, v: ND::Term(cur), source: 0, tape: vec![] });
        }
    }
    // largest first, so that the long cases overlap with the short ones
    out.reverse();
    out
}

pub fn streams() -> Vec<Box<dyn AnyStream>> {
    vec![
        // C01's constructor-inside-constructor enumeration: formatter text and sugared text
        Box::new(Stream::<Case> {
            name: "nested-pairs",
            quick: 0,
            thorough: 0,
            source: Source::Enum(Box::new(|_| Box::new(crate::props::c01::nested_pairs().into_iter().flat_map(|(fi, v)| (0..2u8).map(move |source| Case { fi, v: v.clone(), source, tape: vec![1, 2, 3] }))))),
            check: Box::new(check),
        }),
        Box::new(Stream::<Case> {
            name: "long-texts",
            quick: 0,
            thorough: 0,
            source: Source::Enum(Box::new(|thorough| Box::new(long_texts(thorough == Tier::Thorough).into_iter()))),
            check: Box::new(check),
        }),
        Box::new(Stream::<Case> {
            name: "small-scope",
            quick: 0,
            thorough: 0,
            source: Source::Enum(Box::new(|_| Box::new(small_scope().into_iter()))),
            check: Box::new(check),
        }),
        Box::new(Stream::<Case> {
            name: "differential",
            quick: 50_000,
            thorough: 4_000_000,
            source: Source::Gen(Box::new(strategy)),
            check: Box::new(check),
        }),
    ]
}

pub const PROP: Prop = Prop {
    id: "C03",
    rule: "cases = (format, well-formed enum value, source, tape): the text is the enum formatter's output, the lexical formatter's output for the arity-valid lexical mirror of the value (numbers also spelt `1.0` / `.5`, fixed stamps `+5`), or the value printed by the harness token printer with derived copulas (instance / property / instance-property / retrospective equivalence), padded intervals and decorated placeholders, spaced like the formatter's templates ; stream nested-pairs = C01's constructor-inside-constructor enumeration (formatter and sugared text); stream long-texts = wide / long-name / nested values printed to 3 000–70 000 characters (thorough: 100 000); oracle: enum parser and lexical-parse+fold both succeed, agree, and equal the source value's canonical form; non-trivial = the value's term is a compound or statement; distinct = fingerprint of (format, text)",
    assumptions: &[
        "the sugar printer is trusted only when its plain rendition reproduces the formatter's output exactly for the same instance (otherwise the case is counted inconclusive)",
        "canonical form as in C01",
    ],
    streams,
};
