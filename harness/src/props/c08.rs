//! C08 — parsing depends only on format and input, not on earlier parses.
use crate::desc::*;
use crate::engine::*;
use crate::fail;
use crate::fmts;
use crate::gen;
use crate::printer::{self, Printer, Style};
use crate::strgen;
use narsese::enum_narsese::Narsese;
use proptest::collection::vec;
use proptest::prelude::*;
use serde::{Deserialize, Serialize};
use serde_json::json;

#[derive(Clone, Debug, Serialize, Deserialize)]
pub struct Case {
    pub fi: usize,
    /// (class, text)
    pub inputs: Vec<(String, String)>,
}

#[derive(Clone, Debug, PartialEq)]
enum R {
    Ok(CN),
    Err,
}

fn lone(fi: usize, s: &str) -> Result<R, Failure> {
    match crate::pipes::enum_parse_raw(fi, s) {
        Err(p) => Err(Failure::new("panic:parse", format!("input {s:?}\npanic {p}"))),
        Ok(Err(_)) => Ok(R::Err),
        Ok(Ok(v)) => Ok(R::Ok(canon_n(&v))),
    }
}

fn show(r: &R) -> String {
    match r {
        R::Err => "Err".to_string(),
        R::Ok(c) => format!("Ok({c:?})"),
    }
}

pub fn check(sh: &Shared, c: &Case) -> Check {
    let fi = c.fi.min(2);
    let f = fmts::e(fi);
    let l = fmts::l(fi);
    sh.class(&format!("format/{}", fmts::FMT_NAMES[fi]));
    sh.class(&format!("len/{}", c.inputs.len()));
    let texts: Vec<&str> = c.inputs.iter().map(|(_, s)| s.as_str()).collect();
    // evaluations count POSITIONS of the generated sequences (each is compared with its lone parse)
    sh.evals(texts.len().max(1) as u64);
    for (k, _) in &c.inputs {
        sh.class(&format!("input/{k}"));
    }
    // alone: twice, and from a character vector
    let mut alone = vec![];
    for s in &texts {
        let a = lone(fi, s)?;
        let b = lone(fi, s)?;
        if a != b {
            fail!("parse:not-repeatable", "input {s:?}\nfirst  {}\nsecond {}", show(&a), show(&b));
        }
        let ch = match guard(|| f.parse_chars::<Narsese>(s.chars().collect())) {
            Err(p) => fail!("panic:parse_chars", "input {s:?}\npanic {p}"),
            Ok(Err(_)) => R::Err,
            Ok(Ok(v)) => R::Ok(canon_n(&v)),
        };
        if ch != a {
            fail!("parse_chars:differs", "input {s:?}\nparse       {}\nparse_chars {}", show(&a), show(&ch));
        }
        // lexical parser, twice (shared lazy-static format instance)
        let l1 = guard(|| l.parse(s));
        let l2 = guard(|| fmts::l(fi).parse(s));
        match (l1, l2) {
            (Ok(Ok(x)), Ok(Ok(y))) => {
                if x != y {
                    fail!("lexical:not-repeatable", "input {s:?}\nfirst  {x:?}\nsecond {y:?}");
                }
            }
            (Ok(Err(_)), Ok(Err(_))) => {}
            (Err(p), _) | (_, Err(p)) => fail!("panic:lexical", "input {s:?}\npanic {p}"),
            (a, b) => fail!("lexical:not-repeatable", "input {s:?}\nfirst ok={} second ok={}", matches!(a, Ok(Ok(_))), matches!(b, Ok(Ok(_)))),
        }
        alone.push(a);
    }
    // the same inputs parsed on a FRESH thread (no history at all, thread-local state included)
    // must give the same outcomes as on this long-lived worker thread
    // (thread creation costs milliseconds next to 16 busy workers: done for one case in six)
    if fp(&texts) % 6 == 0 {
        sh.class("reference/fresh-thread");
        let fresh: Vec<(Option<R>, Option<bool>)> = std::thread::scope(|sc| {
            std::thread::Builder::new()
                .stack_size(16 << 20)
                .spawn_scoped(sc, || {
                    texts
                        .iter()
                        .map(|s| {
                            let e = match guard(|| fmts::e(fi).parse::<Narsese>(s)) {
                                Ok(Ok(v)) => Some(R::Ok(canon_n(&v))),
                                Ok(Err(_)) => Some(R::Err),
                                Err(_) => None,
                            };
                            let lx = guard(|| fmts::l(fi).parse(s).is_ok()).ok();
                            (e, lx)
                        })
                        .collect()
                })
                .unwrap()
                .join()
                .unwrap()
        });
        for (i, s) in texts.iter().enumerate() {
            if let Some(e) = &fresh[i].0 {
                if *e != alone[i] {
                    fail!("parse:history-dependent", "input {s:?}\non a fresh thread {}\non the long-lived worker thread {}", show(e), show(&alone[i]));
                }
            }
            let here = guard(|| l.parse(s).is_ok()).ok();
            if fresh[i].1.is_some() && here.is_some() && fresh[i].1 != here {
                fail!("lexical:history-dependent", "input {s:?}\nlexical parse on a fresh thread ok={:?}, on the long-lived worker thread ok={:?}", fresh[i].1, here);
            }
        }
    }
    // batch
    // (the batch goes through a format value at a reused address for half of the cases)
    let batch = match crate::slots::with_e(fi, crate::slots::key_of(&texts.concat()), |f| guard(|| f.parse_multi(texts.iter().copied()).into_iter().map(|r| r.map_err(|e| e.to_string())).collect::<Vec<_>>())) {
        Err(p) => fail!("panic:parse_multi", "inputs {texts:?}\npanic {p}"),
        Ok(v) => v,
    };
    if batch.len() != texts.len() {
        fail!("parse_multi:count", "{} results for {} inputs", batch.len(), texts.len());
    }
    // an earlier input that leaves something behind: a fragment, or anything that is not a clean complete value
    let mut dirty_before = false;
    for (i, r) in batch.into_iter().enumerate() {
        let got = match r {
            Err(_) => R::Err,
            Ok(v) => R::Ok(canon_n(&v)),
        };
        if dirty_before {
            sh.nontrivial(fp(&(fi, &texts[..=i])));
            sh.class("position/after-partial-or-failing-input");
            sh.sample(&format!("after-dirty/{}", fmts::FMT_NAMES[fi]), || json!({"format": fmts::FMT_NAMES[fi], "inputs": texts}));
        }
        if got != alone[i] {
            fail!("parse_multi:history-dependent", "inputs {texts:?}\nposition {i}: {:?}\nalone {}\nbatch {}", texts[i], show(&alone[i]), show(&got));
        }
        let k = c.inputs[i].0.as_str();
        if k != "term" && k != "sentence" && k != "task" {
            dirty_before = true;
        }
    }
    Ok(())
}

fn fragment(fi: usize) -> BoxedStrategy<String> {
    let t = gen::task_with(gen::term(gen::TermOpts { depth: 2, size: 6, deep_max: 0, ..gen::TermOpts::main(fi) }));
    (t, 1u8..31)
        .prop_map(move |(td, mask)| {
            let task = build_task(&td);
            let mut p = Printer::new(fi, Style::Plain, &[]);
            use narsese::api::{GetBudget, GetPunctuation, GetStamp, GetTerm, GetTruth};
            let s = task.get_sentence();
            if mask & 1 != 0 {
                p.budget(task.get_budget());
                p.gap(2);
            }
            if mask & 2 != 0 {
                p.term(s.get_term());
            }
            if mask & 4 != 0 {
                p.punct(s.get_punctuation());
                p.gap(1);
            }
            if mask & 8 != 0 {
                p.gap(2);
                p.stamp(s.get_stamp());
            }
            if mask & 16 != 0 {
                if let Some(tr) = s.get_truth() {
                    p.gap(2);
                    p.truth(tr);
                }
            }
            printer::render(fi, &p.out)
        })
        .boxed()
}

fn input(fi: usize) -> BoxedStrategy<(String, String)> {
    let small = gen::TermOpts { depth: 2, size: 8, ..gen::TermOpts::main(fi) };
    prop_oneof![
        12 => gen::term(small).prop_map(move |d| ("term".to_string(), strgen::text_of(fi, &ND::Term(d)))),
        18 => gen::sentence_with(gen::term(small)).prop_map(move |s| ("sentence".to_string(), strgen::text_of(fi, &ND::Sentence(s)))),
        18 => gen::task_with(gen::term(small)).prop_map(move |t| ("task".to_string(), strgen::text_of(fi, &ND::Task(t)))),
        30 => fragment(fi).prop_map(|s| ("fragment".to_string(), s)),
        14 => strgen::mutated(fi).prop_map(|s| ("malformed".to_string(), s)),
        4 => strgen::soup(fi).prop_map(|s| ("soup".to_string(), s)),
        5 => strgen::nests(fi).prop_map(|s| ("nests".to_string(), s)),
        4 => Just(("empty".to_string(), String::new())),
    ]
    .boxed()
}

/// a long valid input followed by a SHORT one that ends in the first characters of a keyword,
/// aligned so that whatever the earlier input left behind at those positions would complete the
/// keyword (stale buffers / cursors must not matter)
fn aligned_pair(fi: usize) -> BoxedStrategy<Vec<(String, String)>> {
    let small = gen::TermOpts { depth: 2, size: 6, deep_max: 0, ..gen::TermOpts::main(fi) };
    (gen::sentence_with(gen::term(small)), any::<u16>(), 1usize..=3, gen::name_char(fi, gen::NameProfile::Main))
        .prop_map(move |(s, pick, keep, filler)| {
            let long = strgen::text_of(fi, &ND::Sentence(s));
            let chars: Vec<char> = long.chars().collect();
            // all positions where some keyword starts
            let kws: Vec<Vec<char>> = fmts::e_keywords(fi).iter().filter(|k| k.chars().count() >= 2).map(|k| k.chars().collect()).collect();
            let mut hits: Vec<(usize, usize)> = vec![];
            for i in 0..chars.len() {
                for k in &kws {
                    if chars[i..].starts_with(k) {
                        hits.push((i, k.len()));
                    }
                }
            }
            let short: String = if hits.is_empty() {
                "a".to_string()
            } else {
                let (at, len) = hits[((pick as usize) * hits.len()) >> 16];
                let keep = keep.min(len - 1);
                let mut t: String = std::iter::repeat(filler).take(at).collect();
                if t.is_empty() {
                    t.push(filler);
                }
                t.extend(&chars[at..at + keep]);
                t
            };
            vec![("sentence".to_string(), long), ("aligned-tail".to_string(), short)]
        })
        .boxed()
}

/// two inputs that are equal modulo blanks (one blank inserted somewhere, possibly inside a
/// token): results must not be shared between them
fn blank_variants(fi: usize) -> BoxedStrategy<Vec<(String, String)>> {
    (input(fi), any::<u16>(), any::<bool>())
        .prop_map(|((class, text), pos, first)| {
            let mut c: Vec<char> = text.chars().collect();
            let i = ((pos as usize) * (c.len() + 1)) >> 16;
            c.insert(i, ' ');
            let variant: String = c.into_iter().collect();
            if first {
                vec![(class, text), ("blank-variant".to_string(), variant)]
            } else {
                vec![("blank-variant".to_string(), variant), (class, text)]
            }
        })
        .boxed()
}

/// values printed with surface sugar (decorated placeholders `_x`, padded intervals, derived copulas)
fn sugared(fi: usize) -> BoxedStrategy<(String, String)> {
    let small = gen::TermOpts { depth: 2, size: 8, deep_max: 0, ..gen::TermOpts::main(fi) };
    (gen::narsese(small), gen::tape())
        .prop_map(move |(nd, tape)| {
            let v = build_n(&nd);
            let (toks, _) = printer::tokens(fi, &v, Style::Sugar, &tape);
            (nd.kind_name().to_string(), printer::render(fi, &toks))
        })
        .boxed()
}

pub fn strategy() -> BoxedStrategy<Case> {
    gen::fmt_and(|fi| {
        prop_oneof![
            70 => vec(input(fi), 1..=8),
            9 => (vec(input(fi), 0..=2), blank_variants(fi), vec(input(fi), 0..=1)).prop_map(|(mut a, b, c)| { a.extend(b); a.extend(c); a }),
            9 => (vec(sugared(fi), 1..=3), vec(input(fi), 1..=3)).prop_map(|(mut a, b)| { a.extend(b); a }),
            12 => (vec(input(fi), 0..=2), aligned_pair(fi), vec(input(fi), 0..=1)).prop_map(|(mut a, b, c)| { a.extend(b); a.extend(c); a }),
        ]
        .boxed()
    })
    .prop_map(|(fi, inputs)| Case { fi, inputs })
    .boxed()
}

/// small scope: every ordered pair (and every pair followed by the first input again) of a fixed
/// pool of inputs per format: all 31 item subsets of one task, unterminated openers, empty input
pub fn small_scope() -> Vec<Case> {
    use narsese::api::{GetBudget, GetPunctuation, GetStamp, GetTerm, GetTruth};
    let mut out = vec![];
    for fi in 0..3usize {
        let f = fmts::e(fi);
        let td = TD {
            s: SD { term: D::node(Inh, vec![D::word("A"), D::atom(IVar, "1")]), punct: P::Judgement, stamp: St::Fixed(-5), truth: vec![F::of(1.0), F::of(0.9)] },
            budget: vec![F::of(0.5)],
        };
        let task = build_task(&td);
        let s = task.get_sentence();
        let mut pool: Vec<(String, String)> = vec![("empty".into(), String::new())];
        for mask in 1u8..32 {
            let mut p = Printer::new(fi, Style::Plain, &[]);
            if mask & 1 != 0 {
                p.budget(task.get_budget());
                p.gap(2);
            }
            if mask & 2 != 0 {
                p.term(s.get_term());
            }
            if mask & 4 != 0 {
                p.punct(s.get_punctuation());
            }
            if mask & 8 != 0 {
                p.gap(2);
                p.stamp(s.get_stamp());
            }
            if mask & 16 != 0 {
                if let Some(tr) = s.get_truth() {
                    p.gap(2);
                    p.truth(tr);
                }
            }
            let class = match (mask & 2 != 0, mask & 4 != 0, mask & 1 != 0) {
                (true, true, true) => "task",
                (true, true, false) => "sentence",
                (true, false, false) if mask == 2 => "term",
                _ => "fragment",
            };
            pool.push((class.to_string(), printer::render(fi, &p.out)));
        }
        for opener in strgen::openers(fi) {
            pool.push(("malformed".into(), format!("{opener}A")));
            pool.push(("malformed".into(), opener.repeat(40)));
        }
        pool.push(("malformed".into(), format!("{}{}", f.compound.brackets.0, f.compound.connecter_product)));
        pool.push(("term".into(), "A".into()));
        pool.push(("term".into(), format!("{}1", f.atom.prefix_variable_independent)));
        for a in &pool {
            for b in &pool {
                out.push(Case { fi, inputs: vec![a.clone(), b.clone()] });
            }
        }
        // triples x, y, x for a sample of y
        for a in pool.iter().step_by(3) {
            for b in pool.iter().step_by(2) {
                out.push(Case { fi, inputs: vec![a.clone(), b.clone(), a.clone()] });
            }
        }
    }
    out
}

pub fn streams() -> Vec<Box<dyn AnyStream>> {
    vec![
        Box::new(Stream::<Case> {
            name: "small-scope",
            quick: 0,
            thorough: 0,
            source: Source::Enum(Box::new(|_| Box::new(small_scope().into_iter()))),
            check: Box::new(check),
        }),
        Box::new(Stream::<Case> {
        name: "sequences",
        quick: 15_000,
        thorough: 1_000_000,
        source: Source::Gen(Box::new(strategy)),
        check: Box::new(check),
    }),
    ]
}

pub const PROP: Prop = Prop {
    id: "C08",
    rule: "cases = (format, sequence of 1..8 inputs) mixing complete printed terms / sentences / tasks, fragments that fill only some of the five slots (any non-empty subset of budget, term, punctuation, stamp, truth), malformed mutations, keyword soup and the empty string; oracle: parse_multi(seq)[i] ~ parse(seq[i]) (both Err or both Ok with equal canonical value), parse twice, parse_chars ~ parse, lexical parse twice; non-trivial = a position that comes after a fragment / malformed / empty input; distinct = fingerprint of (format, prefix of the sequence up to that position)",
    assumptions: &["canonical form as in C01"],
    streams,
};
