pub mod c01;
pub mod c04;
pub mod c06;
pub mod c07;
