pub mod c01;
pub mod c03;
pub mod c09;
pub mod c10;
pub mod c04;
pub mod c06;
pub mod c07;
pub mod c08;
