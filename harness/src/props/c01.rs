//! C01 — enum format → parse round-trip in every shipped format.
use crate::desc::*;
use crate::engine::*;
use crate::fmts;
use crate::gen;
use crate::fail;
use narsese::enum_narsese::Narsese;
use proptest::prelude::*;
use serde_json::json;

pub type Case = (usize, ND);

pub fn classify(sh: &Shared, fi: usize, nd: &ND) {
    let f = fmts::FMT_NAMES[fi];
    sh.class(&format!("format/{f}"));
    sh.class(&format!("kind/{}", nd.kind_name()));
    let d = nd.term().depth();
    sh.class(&format!("depth/{}", if d >= 8 { "8+".to_string() } else { d.to_string() }));
    let mut seen = std::collections::BTreeSet::new();
    nd.term().visit(&mut |x| {
        seen.insert(x.k);
    });
    for k in seen {
        sh.class(&format!("has/{k:?}/{f}"));
    }
    match nd {
        ND::Term(_) => {}
        ND::Sentence(s) | ND::Task(TD { s, .. }) => {
            sh.class(&format!("punct/{:?}", s.punct));
            sh.class(&format!("stamp/{}", match s.stamp { St::Fixed(_) => "Fixed".to_string(), o => format!("{o:?}") }));
            sh.class(&format!("truth/{}", s.truth.len()));
        }
    }
    if let ND::Task(t) = nd {
        sh.class(&format!("budget/{}", t.budget.len()));
    }
    nd.term().visit(&mut |x| {
        if x.k.is_image() {
            let pos = if x.n == 0 { "first" } else if x.n == x.kids.len() { "last" } else { "middle" };
            sh.class(&format!("image_index/{pos}"));
        }
    });
}

pub fn nontrivial(nd: &ND) -> bool {
    !matches!(nd, ND::Term(d) if d.k == Word)
}

pub fn check(sh: &Shared, case: &Case) -> Check {
    let (fi, nd) = case;
    let fi = *fi;
    if !nd.term().arity_ok() {
        fail!("harness/bad-case", "description violates arity");
    }
    sh.eval();
    classify(sh, fi, nd);
    if nontrivial(nd) {
        sh.nontrivial(fp(case));
        sh.sample(&format!("{}/{}", fmts::FMT_NAMES[fi], nd.kind_name()), || json!({"format": fmts::FMT_NAMES[fi], "value": nd}));
    }
    let f = fmts::e(fi);
    let v = build_n(nd);
    let s = match guard(|| f.format_narsese(&v)) {
        Ok(s) => s,
        Err(p) => fail!("format:panic", "format_narsese panicked: {p}"),
    };
    sh.sample(&format!("text/{}/{}", fmts::FMT_NAMES[fi], nd.kind_name()), || json!(s));
    // the type-specific formatters agree with format_narsese (same instance ⇒ same set order)
    let s2 = guard(|| match &v {
        Narsese::Term(t) => f.format_term(t),
        Narsese::Sentence(x) => f.format_sentence(x),
        Narsese::Task(x) => f.format_task(x),
    });
    match s2 {
        Ok(s2) if s2 == s => {}
        Ok(s2) => fail!("format:specific-differs", "format_narsese = {s:?}\nformat_<kind> = {s2:?}"),
        Err(p) => fail!("format:panic", "type-specific formatter panicked: {p}"),
    }
    // the generic entry points (`format(&value)` / FormatTo) print the same text
    let s3 = guard(|| {
        use narsese::api::FormatTo;
        let a = match &v {
            Narsese::Term(t) => f.format(t),
            Narsese::Sentence(x) => f.format(x),
            Narsese::Task(x) => f.format(x),
        };
        let b: String = match &v {
            Narsese::Term(t) => t.format_to(f),
            Narsese::Sentence(x) => x.format_to(f),
            Narsese::Task(x) => x.format_to(f),
        };
        (a, b)
    });
    match s3 {
        Ok((a, b)) if a == s && b == s => {}
        Ok((a, b)) => fail!("format:specific-differs", "format_narsese = {s:?}\nformat(&value) = {a:?}\nformat_to = {b:?}"),
        Err(p) => fail!("format:panic", "generic formatter entry point panicked: {p}"),
    }
    let r: Result<Result<Narsese, String>, String> = crate::pipes::enum_parse_raw(fi, &s);
    let w = match r {
        Err(p) => fail!("parse:panic", "text {s:?}\npanic {p}"),
        Ok(Err(e)) => fail!("roundtrip:err", "text {s:?}\nparse error: {e}"),
        Ok(Ok(w)) => w,
    };
    let expected = canon_nd(nd);
    let got = canon_n(&w);
    if got.kind != expected.kind {
        fail!("roundtrip:kind", "text {s:?}\nexpected kind {} got {}", expected.kind, got.kind);
    }
    if got != expected {
        fail!("roundtrip:value", "text {s:?}\nexpected {expected:?}\ngot      {got:?}");
    }
    Ok(())
}

fn small_atoms(fi: usize) -> Vec<D> {
    let _ = fi;
    vec![D::word("a"), D::word("1"), D::atom(IVar, "x")]
}

fn lists(atoms: &[D], max: usize) -> Vec<Vec<D>> {
    let mut out: Vec<Vec<D>> = vec![];
    let mut cur: Vec<Vec<D>> = vec![vec![]];
    for _ in 0..max {
        let mut next = vec![];
        for l in &cur {
            for a in atoms {
                let mut l2 = l.clone();
                l2.push(a.clone());
                next.push(l2);
            }
        }
        out.extend(next.iter().cloned());
        cur = next;
    }
    out
}

/// small-scope exhaustive set: every constructor × every format × short component lists ×
/// all image indices; plus all sentence/task decorations on a fixed term
pub fn small_scope() -> Vec<Case> {
    let mut out = vec![];
    for fi in 0..3 {
        let atoms = small_atoms(fi);
        let mut terms: Vec<D> = vec![
            D::word("a"), D::word("1"), D::placeholder(), D::atom(IVar, "x"), D::atom(IVar, "1"), D::atom(DVar, "x"),
            D::atom(DVar, "1"), D::atom(QVar, "x"), D::atom(QVar, "1"), D::atom(Op, "x"), D::atom(Op, "1"),
            D::interval(0), D::interval(7), D::interval(usize::MAX),
        ];
        let ls = lists(&atoms, 3);
        for k in ALL_KINDS {
            if k.is_atom() {
                continue;
            }
            for l in &ls {
                if k == Neg {
                    if l.len() == 1 {
                        terms.push(D::node(k, l.clone()));
                    }
                } else if k.is_binary_ordered() || k.is_sym_statement() {
                    if l.len() == 2 {
                        terms.push(D::node(k, l.clone()));
                    }
                } else if k.is_image() {
                    for i in 0..=l.len() {
                        terms.push(D::image(k, i, l.clone()));
                    }
                } else {
                    terms.push(D::node(k, l.clone()));
                }
            }
        }
        for t in &terms {
            out.push((fi, ND::Term(t.clone())));
        }
        // decorations
        let stamps = [St::Eternal, St::Past, St::Present, St::Future, St::Fixed(isize::MIN), St::Fixed(-1), St::Fixed(0), St::Fixed(isize::MAX)];
        let truths: [Vec<F>; 3] = [vec![], vec![F::of(1.0)], vec![F::of(0.0), F::of(0.9)]];
        let budgets: [Vec<F>; 4] = [vec![], vec![F::of(0.5)], vec![F::of(0.5), F::of(0.0)], vec![F::of(1.0), F::of(0.75), F::of(0.4)]];
        for base in [D::word("a"), D::atom(IVar, "1"), D::atom(QVar, "q"), D::node(Inh, vec![D::word("a"), D::word("b")])] {
            for p in ALL_P {
                for st in stamps {
                    for tr in &truths {
                        if matches!(p, P::Question | P::Quest) && !tr.is_empty() {
                            continue;
                        }
                        let s = SD { term: base.clone(), punct: p, stamp: st, truth: tr.clone() };
                        out.push((fi, ND::Sentence(s.clone())));
                        for b in &budgets {
                            out.push((fi, ND::Task(TD { s: s.clone(), budget: b.clone() })));
                        }
                    }
                }
            }
        }
    }
    out
}

/// a minimal term of every constructor (atoms: one name each kind; compounds over a, b)
pub fn minimal_terms() -> Vec<D> {
    let a = D::word("a");
    let b = D::word("b");
    let mut out = vec![
        D::word("c"), D::word("7"), D::placeholder(), D::atom(IVar, "x"), D::atom(IVar, "7"), D::atom(DVar, "x"), D::atom(QVar, "x"), D::atom(QVar, "7"),
        D::interval(7), D::atom(Op, "x"),
    ];
    for k in ALL_KINDS {
        if k.is_atom() {
            continue;
        }
        if k == Neg {
            out.push(D::node(k, vec![a.clone()]));
        } else if k.is_image() {
            out.push(D::image(k, 0, vec![a.clone()]));
            out.push(D::image(k, 1, vec![a.clone(), b.clone()]));
            out.push(D::image(k, 2, vec![a.clone(), b.clone()]));
        } else if k.is_multi() {
            out.push(D::node(k, vec![a.clone()]));
            out.push(D::node(k, vec![a.clone(), b.clone()]));
        } else {
            out.push(D::node(k, vec![a.clone(), b.clone()]));
        }
    }
    out
}

/// every constructor directly inside every constructor, in every position (first / middle / last /
/// only component, every image index), in every format, as a bare term, as a judgement and as a
/// question task — "a particular constructor inside another particular constructor in one
/// particular format" is a finite space and is walked completely
pub fn nested_pairs() -> Vec<Case> {
    let mut out = vec![];
    let a = D::word("a");
    let b = D::word("b");
    let inner = minimal_terms();
    for fi in 0..3usize {
        let mut terms: Vec<D> = vec![];
        for c in &inner {
            for k in ALL_KINDS {
                if k.is_atom() {
                    continue;
                }
                // a direct placeholder cannot be told from an image's own placeholder
                let ph = c.k == Placeholder;
                if k == Neg {
                    terms.push(D::node(k, vec![c.clone()]));
                } else if k.is_image() {
                    if ph {
                        continue;
                    }
                    terms.push(D::image(k, 0, vec![c.clone()]));
                    terms.push(D::image(k, 1, vec![c.clone()]));
                    for i in 0..=2 {
                        terms.push(D::image(k, i, vec![c.clone(), b.clone()]));
                        terms.push(D::image(k, i, vec![a.clone(), c.clone()]));
                    }
                } else if k.is_multi() {
                    terms.push(D::node(k, vec![c.clone()]));
                    terms.push(D::node(k, vec![c.clone(), b.clone()]));
                    terms.push(D::node(k, vec![a.clone(), c.clone()]));
                    terms.push(D::node(k, vec![a.clone(), c.clone(), b.clone()]));
                } else {
                    terms.push(D::node(k, vec![c.clone(), b.clone()]));
                    terms.push(D::node(k, vec![a.clone(), c.clone()]));
                    terms.push(D::node(k, vec![c.clone(), c.clone()]));
                }
            }
        }
        for t in terms {
            out.push((fi, ND::Term(t.clone())));
            out.push((fi, ND::Sentence(SD { term: t.clone(), punct: P::Judgement, stamp: St::Fixed(-7), truth: vec![F::of(1.0), F::of(0.9)] })));
            out.push((fi, ND::Task(TD { budget: vec![F::of(0.5), F::of(0.75)], s: SD { term: t, punct: P::Question, stamp: St::Future, truth: vec![] } })));
        }
        // every decoration combination behind every kind of term tail
        let stamps = [St::Eternal, St::Past, St::Present, St::Future, St::Fixed(-1), St::Fixed(30000)];
        let truths: [Vec<F>; 3] = [vec![], vec![F::of(1.0)], vec![F::of(0.0), F::of(0.9)]];
        let budgets: [Vec<F>; 4] = [vec![], vec![F::of(0.5)], vec![F::of(0.5), F::of(0.0)], vec![F::of(1.0), F::of(0.75), F::of(0.4)]];
        for base in &inner {
            if base.k == Placeholder {
                continue;
            }
            for p in ALL_P {
                for st in stamps {
                    for tr in &truths {
                        if matches!(p, P::Question | P::Quest) && !tr.is_empty() {
                            continue;
                        }
                        let s = SD { term: base.clone(), punct: p, stamp: st, truth: tr.clone() };
                        out.push((fi, ND::Sentence(s.clone())));
                        for bu in &budgets {
                            out.push((fi, ND::Task(TD { s: s.clone(), budget: bu.clone() })));
                        }
                    }
                }
            }
        }
    }
    out
}

pub fn strategy() -> BoxedStrategy<Case> {
    gen::fmt_and(|fi| gen::narsese(gen::TermOpts::main(fi)))
}

/// terms nested 100..=600 levels deep with one constructor, or compounds with 100..=400 composite
/// components (the property quantifies over any depth and any arity)
pub fn very_deep() -> BoxedStrategy<Case> {
    very_deep_to(5000)
}

/// `huge` = upper bound of the occasional very wide compound (the lexical parser's cost grows
/// with the square of the text length, so C02 stays at 400)
pub fn very_deep_to(huge: usize) -> BoxedStrategy<Case> {
    gen::fmt_and(move |fi| {
        let o = gen::TermOpts { deep_max: 600, ..gen::TermOpts::main(fi) };
        let non_atoms: Vec<Kind> = ALL_KINDS.iter().copied().filter(|k| !k.is_atom()).collect();
        let small = gen::atom(gen::TermOpts { placeholders: false, ..o });
        let multi: Vec<Kind> = ALL_KINDS.iter().copied().filter(|k| k.is_multi()).collect();
        (proptest::sample::select(non_atoms), 100usize..=600, small.clone(), small, any::<u16>(), gen::punct(), any::<bool>(), proptest::option::weighted(0.3, (proptest::sample::select(multi), prop_oneof![85 => 100usize..=400, 15 => (huge / 5).max(100)..=huge.max(400)])))
            .prop_map(move |(k, depth, base, mut side, frac, p, as_sentence, wide)| {
                // `side` is repeated at every level: keep it short (a 300-character name × 600
                // levels would make a 180 000-character text; long names are C01's other streams')
                if side.name.chars().count() > 8 {
                    let short: String = side.name.chars().take(8).collect();
                    side.name = gen::fix_name(fi, gen::NameProfile::Main, &short);
                }
                let mut cur = base;
                if let Some((wk, n)) = wide {
                    // very WIDE instead: n composite components (distinct names so sets keep them all)
                    let kids: Vec<D> = (0..n).map(|i| D::node(Inh, vec![D::word(&format!("s{i}")), side.clone()])).collect();
                    cur = if wk.is_image() { D::image(wk, gen::idx_of(frac, n), kids) } else { D::node(wk, kids) };
                } else {
                for _ in 0..depth {
                    cur = gen::wrap_chain(k, cur, side.clone(), frac);
                }
                }
                if as_sentence {
                    ND::Sentence(SD { term: cur, punct: p, stamp: St::Eternal, truth: vec![] })
                } else {
                    ND::Term(cur)
                }
            })
            .boxed()
    })
}

/// Han keyword-fragment names (see gen::han_fragment_names) in every position a name can
/// take: alone, in a sentence, as subject / predicate / component / element, with a prefix
pub fn han_fragments() -> Vec<Case> {
    let mut out = vec![];
    let other = D::word("b");
    for n in gen::han_fragment_names() {
        for k in [Word, IVar, DVar, QVar, Op] {
            let a = D::atom(k, &n);
            let terms = vec![
                a.clone(),
                D::node(Inh, vec![a.clone(), other.clone()]),
                D::node(Inh, vec![other.clone(), a.clone()]),
                D::node(Sim, vec![a.clone(), other.clone()]),
                D::node(Product, vec![a.clone(), other.clone()]),
                D::node(Product, vec![other.clone(), a.clone()]),
                D::node(SetExt, vec![a.clone()]),
                D::node(SetInt, vec![other.clone(), a.clone()]),
                D::node(Neg, vec![a.clone()]),
                D::image(ImgExt, 1, vec![other.clone(), a.clone()]),
            ];
            for t in terms {
                out.push((fmts::HAN, ND::Term(t.clone())));
                if k == Word {
                    out.push((fmts::HAN, ND::Sentence(SD { term: t.clone(), punct: P::Judgement, stamp: St::Eternal, truth: vec![] })));
                    out.push((fmts::HAN, ND::Task(TD { budget: vec![F::of(0.5)], s: SD { term: t, punct: P::Question, stamp: St::Present, truth: vec![] } })));
                }
            }
        }
    }
    out
}

pub fn streams() -> Vec<Box<dyn AnyStream>> {
    vec![
        Box::new(Stream::<Case> {
            name: "han-fragments",
            quick: 0,
            thorough: 0,
            source: Source::Enum(Box::new(|_| Box::new(han_fragments().into_iter()))),
            check: Box::new(check),
        }),
        Box::new(Stream::<Case> {
            name: "small-scope",
            quick: 0,
            thorough: 0,
            source: Source::Enum(Box::new(|_| Box::new(small_scope().into_iter()))),
            check: Box::new(check),
        }),
        Box::new(Stream::<Case> {
            name: "nested-pairs",
            quick: 0,
            thorough: 0,
            source: Source::Enum(Box::new(|_| Box::new(nested_pairs().into_iter()))),
            check: Box::new(check),
        }),
        Box::new(Stream::<Case> {
            name: "very-deep",
            quick: 150,
            thorough: 6_000,
            source: Source::Gen(Box::new(very_deep)),
            check: Box::new(check),
        }),
        Box::new(Stream::<Case> {
            name: "roundtrip",
            quick: 60_000,
            thorough: 6_000_000,
            source: Source::Gen(Box::new(strategy)),
            check: Box::new(check),
        }),
    ]
}

pub const PROP: Prop = Prop {
    id: "C01",
    rule: "cases = (format, description of a well-formed enum term/sentence/task) generated by construction (recursive mix of all 30 constructors, deep chains to depth 40, wide compounds to 12 components, 4 punctuations, 5 stamp kinds incl. isize::MIN/MAX, 0-2 truth and 0-3 budget numbers from a special pool ∪ uniform [0,1]) plus a small-scope enumeration (every constructor × short component lists × all image indices × all decorations); stream nested-pairs enumerates every constructor directly inside every constructor in every position / image index × format × {term, judgement, question task} and every decoration combination behind every kind of term; stream han-fragments enumerates Han names made of one character of a multi-character keyword in every position; stream very-deep has 100–600 levels / 100–400 components; names come from the whole identifier space (any script block, anything above U+1F2FF, invisible letters, 1–300 characters), interval and stamp numbers are magnitude-uniform; non-trivial = anything but a bare word term; distinct = FNV fingerprint of (format, description)",
    assumptions: &[
        "harness canonical form (sorted/deduplicated unordered nodes, sorted symmetric operands, numbers by bit pattern) is the semantic identity of C06",
        "values are built from the public enum variants directly; proptest, rustc and std are trusted",
        "Han names are drawn from CJK letters sharing no character with a Han keyword; Han adjacency hazards are probed as known findings only",
    ],
    streams,
};
