//! C06 — term equality is semantic, order-insensitive where NAL says so, and stable.
//! C07 — equal terms hash equally (same generator, see c07.rs).
use crate::desc::*;
use crate::engine::*;
use crate::fail;
use crate::gen;
use crate::plan::*;
use narsese::enum_narsese::{Budget, Narsese, Sentence, Stamp, Task, Term, Truth};
use proptest::prelude::*;
use serde::{Deserialize, Serialize};
use serde_json::json;

#[derive(Clone, Debug, Serialize, Deserialize)]
pub struct Case {
    pub a: D,
    pub edit: Edit,
    pub other: D,
    pub t1: Vec<u8>,
    pub t2: Vec<u8>,
    pub t3: Vec<u8>,
}

pub fn has_unordered_choice(d: &D) -> bool {
    d.any(&|x| {
        (x.k.is_set_like() && {
            let mut c: Vec<C> = x.kids.iter().map(canon_d).collect();
            c.sort();
            c.dedup();
            c.len() >= 2
        }) || (x.k.is_sym_statement() && canon_d(&x.kids[0]) != canon_d(&x.kids[1]))
    })
}

pub fn has_nested_unordered(d: &D) -> bool {
    fn multi_set(x: &D) -> bool {
        x.k.is_set_like() && {
            let mut c: Vec<C> = x.kids.iter().map(canon_d).collect();
            c.sort();
            c.dedup();
            c.len() >= 2
        }
    }
    d.any(&|x| (x.k.is_set_like() || x.k.is_sym_statement()) && x.kids.iter().any(|k| k.any(&multi_set)))
}

fn build(d: &D, tape: &[u8], offset: usize, sh: &Shared) -> Term {
    let mut tp = Tape::new(tape, offset);
    let by_parse = tp.next() % 4 == 0;
    let t = if by_parse {
        match build_by_parse(d, &mut tp) {
            Some(t) => {
                sh.class("history/parsed");
                t
            }
            None => {
                sh.class("history/parse-route-unavailable");
                build_plan(d, &mut tp)
            }
        }
    } else if tp.next() % 16 == 0 {
        // built on ANOTHER thread (thread-keyed state must not enter equality / hashing)
        sh.class("history/constructed-on-other-thread");
        let off = tp.next() as usize;
        std::thread::scope(|s| std::thread::Builder::new().stack_size(64 << 20).spawn_scoped(s, || build_plan(d, &mut Tape::new(tape, off))).unwrap().join().unwrap())
    } else {
        sh.class("history/constructed");
        build_plan(d, &mut tp)
    };
    if canon_t(&t) != canon_d(d) {
        // constructors / push_components misbehaving is C17's business; stay sound here
        sh.class("inconclusive/build-mismatch");
        return build_raw(d);
    }
    t
}

fn eq(x: &Term, y: &Term) -> Result<bool, Failure> {
    guard(|| x == y).map_err(|p| Failure::new("eq:panic", format!("== panicked: {p}")))
}

pub fn check(sh: &Shared, c: &Case) -> Check {
    if !c.a.arity_ok() || !c.other.arity_ok() {
        fail!("harness/bad-case", "description violates arity");
    }
    sh.eval();
    let a2 = apply_edit(&c.a, &c.edit);
    let descs: [&D; 4] = [&c.a, &c.a, &a2, &c.other];
    let canons: Vec<C> = descs.iter().map(|d| canon_d(d)).collect();
    let neutral = canons[0] == canons[2];
    sh.class(if neutral { "edit/neutral" } else { "edit/semantic" });
    if has_unordered_choice(&c.a) {
        sh.nontrivial(fp(&(&c.a, &c.edit)));
        sh.class("shape/unordered-choice");
        if has_nested_unordered(&c.a) {
            sh.class("shape/nested-unordered");
            sh.sample("nested-unordered", || json!({"a": c.a, "edit": c.edit}));
        }
    }
    // 8 repeated constructions (fresh RandomState in every HashSet each time)
    for rep in 0..8usize {
        let tapes: [&[u8]; 4] = [&c.t1, &c.t2, &c.t3, &c.t1];
        let terms: Vec<Term> = (0..4).map(|i| build(descs[i], tapes[i], rep * 7 + i, sh)).collect();
        for i in 0..4 {
            // reflexive, also through clone
            if !eq(&terms[i], &terms[i])? {
                fail!("eq:not-reflexive", "x != x for {:?}", descs[i]);
            }
            let cl = terms[i].clone();
            if !eq(&terms[i], &cl)? || !eq(&cl, &terms[i])? {
                fail!("eq:clone-differs", "x != x.clone() for {:?}", descs[i]);
            }
            for j in 0..4 {
                if i == j {
                    continue;
                }
                let expected = canons[i] == canons[j];
                let got = eq(&terms[i], &terms[j])?;
                let back = eq(&terms[j], &terms[i])?;
                if got != back {
                    fail!("eq:not-symmetric", "(x==y)={got} but (y==x)={back}\nx = {:?}\ny = {:?}", descs[i], descs[j]);
                }
                if got != expected {
                    let sig = if expected { "eq:false-negative" } else { "eq:false-positive" };
                    fail!(sig, "repetition {rep}: semantically {} terms compare {}\nx = {:?}\ny = {:?}", if expected { "equal" } else { "different" }, if got { "equal" } else { "unequal" }, descs[i], descs[j]);
                }
            }
        }
        // transitivity over all triples, on the library's own answers
        for i in 0..4 {
            for j in 0..4 {
                for k in 0..4 {
                    if eq(&terms[i], &terms[j])? && eq(&terms[j], &terms[k])? && !eq(&terms[i], &terms[k])? {
                        fail!("eq:not-transitive", "x==y, y==z but x!=z\nx = {:?}\ny = {:?}\nz = {:?}", descs[i], descs[j], descs[k]);
                    }
                }
            }
        }
        if rep == 0 {
            // wrappers derive their equality through Term
            let expected = canons[0] == canons[2];
            let w = |t: &Term| {
                let s = Sentence::Judgement(t.clone(), Truth::Double(1.0, 0.9), Stamp::Fixed(-1));
                (Narsese::Term(t.clone()), s.clone(), Task(s, Budget::Single(0.5)))
            };
            let (n0, s0, k0) = w(&terms[0]);
            let (n1, s1, k1) = w(&terms[1]);
            let (n2, s2, k2) = w(&terms[2]);
            let r = guard(|| (n0 == n1, s0 == s1, k0 == k1, n0 == n2, s0 == s2, k0 == k2));
            match r {
                Err(p) => fail!("eq:panic", "wrapper == panicked: {p}"),
                Ok((a, b, cc, d, e, f)) => {
                    if !(a && b && cc) {
                        fail!("eq:wrapper-false-negative", "Narsese/Sentence/Task built from the same description compare unequal ({a},{b},{cc})\nx = {:?}", c.a);
                    }
                    if d != expected || e != expected || f != expected {
                        fail!("eq:wrapper-mismatch", "wrappers of edited value: expected {expected}, got ({d},{e},{f})\nx = {:?}\ny = {:?}", c.a, a2);
                    }
                }
            }
        }
    }
    Ok(())
}

/// a small closed universe of terms in which every ordered pair is compared (catches slips
/// that need coinciding operands, e.g. a symmetric statement whose two operands are equal)
pub fn small_universe() -> Vec<D> {
    let a = D::word("a");
    let b = D::word("b");
    let atoms = vec![a.clone(), b.clone()];
    let mut u1: Vec<D> = vec![a.clone(), b.clone(), D::atom(IVar, "a"), D::placeholder(), D::interval(1)];
    for k in ALL_KINDS {
        if k.is_atom() {
            continue;
        }
        if k == Neg {
            for x in &atoms {
                u1.push(D::node(k, vec![x.clone()]));
            }
        } else if k.is_binary_ordered() || k.is_sym_statement() {
            for x in &atoms {
                for y in &atoms {
                    u1.push(D::node(k, vec![x.clone(), y.clone()]));
                }
            }
        } else if k.is_image() {
            for x in &atoms {
                u1.push(D::image(k, 0, vec![x.clone()]));
                u1.push(D::image(k, 1, vec![x.clone()]));
                for y in &atoms {
                    for i in 0..=2 {
                        u1.push(D::image(k, i, vec![x.clone(), y.clone()]));
                    }
                }
            }
        } else {
            for x in &atoms {
                u1.push(D::node(k, vec![x.clone()]));
                for y in &atoms {
                    u1.push(D::node(k, vec![x.clone(), y.clone()]));
                }
            }
            u1.push(D::node(k, vec![a.clone(), b.clone(), a.clone()]));
        }
    }
    let sim = |x: &D, y: &D| D::node(Sim, vec![x.clone(), y.clone()]);
    let s: Vec<D> = vec![
        a.clone(), b.clone(), sim(&a, &b), sim(&b, &a), sim(&a, &a),
        D::node(SetExt, vec![a.clone(), b.clone()]), D::node(SetExt, vec![b.clone(), a.clone()]), D::node(SetExt, vec![a.clone()]),
        D::node(Conj, vec![a.clone(), b.clone()]), D::node(Product, vec![a.clone(), b.clone()]), D::node(Product, vec![b.clone(), a.clone()]),
        D::node(Inh, vec![a.clone(), b.clone()]), D::node(EquConc, vec![b.clone(), a.clone()]),
        // same names, different inner atom kind / connective (hash ties must not decide equality)
        D::node(Product, vec![a.clone()]), D::node(Product, vec![D::atom(IVar, "a")]), D::node(Seq, vec![a.clone()]),
        D::node(Neg, vec![a.clone()]), D::node(Neg, vec![D::atom(DVar, "a")]),
        D::node(Inh, vec![a.clone(), D::atom(QVar, "b")]), D::node(Imp, vec![a.clone(), b.clone()]),
    ];
    let mut u = u1;
    for k in [Sim, Equ, EquConc, Inh, SetExt, Conj, Par, Product, DiffExt] {
        for x in &s {
            for y in &s {
                if x.k.is_atom() && y.k.is_atom() {
                    continue;
                }
                u.push(D::node(k, vec![x.clone(), y.clone()]));
            }
        }
    }
    u
}

pub fn check_universe(sh: &Shared, _c: &u8) -> Check {
    let u = small_universe();
    let canons: Vec<C> = u.iter().map(canon_d).collect();
    // two independent builds of every member (different RandomStates, different routes)
    let t1: Vec<Term> = u.iter().map(build_raw).collect();
    let t2: Vec<Term> = u.iter().map(build_ctor).collect();
    sh.class_n("universe/terms", u.len() as u64);
    for i in 0..u.len() {
        for j in 0..u.len() {
            sh.eval();
            let expected = canons[i] == canons[j];
            let got = eq(&t1[i], &t2[j])?;
            if got != expected {
                let sig = if expected { "eq:false-negative" } else { "eq:false-positive" };
                fail!(sig, "small universe: semantically {} terms compare {}\nx = {:?}\ny = {:?}", if expected { "equal" } else { "different" }, if got { "equal" } else { "unequal" }, u[i], u[j]);
            }
            if expected && i != j {
                sh.nontrivial(fp(&(i, j)));
            }
        }
    }
    Ok(())
}

pub fn opts() -> gen::TermOpts {
    gen::TermOpts { weights: gen::W_SETS, depth: 4, size: 20, ..gen::TermOpts::main(0) }
}

pub fn strategy() -> BoxedStrategy<Case> {
    (gen::term(opts()), gen::edit(0), gen::term(opts()), gen::tape(), gen::tape(), gen::tape())
        .prop_map(|(a, edit, other, t1, t2, t3)| Case { a, edit, other, t1, t2, t3 })
        .boxed()
}

#[derive(Clone, Debug, Serialize, Deserialize)]
pub struct LoadCase {
    pub threads: usize,
    pub depth: usize,
    pub rounds: usize,
}

/// "stable for every history" includes what other threads are doing at the moment: many threads
/// compare / hash / look up their own deep terms at the same time (released together by a
/// barrier). Every verdict concerns one thread's own values, so the expected answers do not
/// depend on the schedule; returns the descriptions of wrong answers.
pub fn under_load(c: &LoadCase, with_hash: bool) -> Vec<String> {
    use std::collections::hash_map::DefaultHasher;
    use std::collections::HashSet;
    use std::hash::{Hash, Hasher};
    use std::sync::{Arc, Barrier, Mutex};
    let n = c.threads.clamp(1, 256);
    let depth = c.depth.min(5_000);
    let rounds = c.rounds.clamp(1, 50);
    let barrier = Arc::new(Barrier::new(n));
    let wrong: Arc<Mutex<Vec<String>>> = Arc::new(Mutex::new(vec![]));
    let build = move |i: usize, flip: bool| {
        // a chain of `depth` ordered layers (hashing it recurses `depth` levels, at linear cost)
        // inside an unordered pair: the pair's equality looks the chain up by its hash
        let mut cur = Term::new_word(format!("a{i}"));
        for l in 0..depth {
            cur = match l % 3 {
                0 => Term::new_negation(cur),
                1 => Term::new_product(vec![cur, Term::new_word("c")]),
                _ => Term::new_implication(cur, Term::new_word("d")),
            };
        }
        let y = Term::new_word(format!("b{i}"));
        let mut cur = if flip { Term::new_set_extension(vec![y, cur]) } else { Term::new_set_extension(vec![cur, y]) };
        for _ in 0..3 {
            cur = Term::new_conjunction(vec![cur, Term::new_word("e")]);
        }
        cur
    };
    let handles: Vec<_> = (0..n)
        .map(|i| {
            let barrier = barrier.clone();
            let wrong = wrong.clone();
            std::thread::Builder::new()
                .stack_size(16 << 20)
                .spawn(move || {
                    let quiet_a = build(i, false);
                    barrier.wait();
                    let mut bad: Vec<String> = vec![];
                    let mut built_under_load = vec![];
                    for r in 0..rounds {
                        let b = build(i, r % 2 == 0);
                        if quiet_a != b {
                            bad.push(format!("thread {i} round {r}: two builds of the same term compare unequal"));
                        }
                        #[allow(clippy::redundant_clone)]
                        if b != b.clone() {
                            bad.push(format!("thread {i} round {r}: a term differs from its clone"));
                        }
                        if with_hash {
                            let h = |t: &Term| {
                                let mut s = DefaultHasher::new();
                                t.hash(&mut s);
                                s.finish()
                            };
                            if h(&quiet_a) != h(&b) {
                                bad.push(format!("thread {i} round {r}: equal terms hash differently"));
                            }
                            let set: HashSet<Term> = HashSet::from([b.clone()]);
                            if !set.contains(&quiet_a) {
                                bad.push(format!("thread {i} round {r}: HashSet{{x}}.contains(y) is false for equal x, y"));
                            }
                        }
                        built_under_load.push(b);
                    }
                    barrier.wait();
                    // everybody is quiet again: what was built under load must still be itself
                    let fresh = build(i, true);
                    for (r, b) in built_under_load.iter().enumerate() {
                        if *b != fresh || fresh != *b {
                            bad.push(format!("thread {i}: the term built in round {r} while other threads were busy is unequal to a fresh build"));
                        }
                    }
                    wrong.lock().unwrap().extend(bad);
                })
        })
        .collect();
    // (a thread that could not be started would leave the others waiting at the barrier: that is
    // an infrastructure problem, not a verdict)
    if handles.iter().any(|h| h.is_err()) {
        eprintln!("NOTE under-load: could not start {n} threads; case skipped");
        std::process::exit(2);
    }
    for h in handles.into_iter().flatten() {
        if h.join().is_err() {
            wrong.lock().unwrap().push("a worker thread panicked".to_string());
        }
    }
    let w = wrong.lock().unwrap().clone();
    w
}

pub fn load_cases() -> Vec<LoadCase> {
    vec![
        LoadCase { threads: 64, depth: 3_000, rounds: 6 },
        LoadCase { threads: 128, depth: 600, rounds: 10 },
        LoadCase { threads: 16, depth: 40, rounds: 50 },
        LoadCase { threads: 200, depth: 150, rounds: 10 },
    ]
}

pub fn check_load(sh: &Shared, c: &LoadCase) -> Check {
    sh.evals((c.threads * c.rounds * 3) as u64);
    sh.nontrivial(fp(c));
    sh.class(&format!("under-load/{}x{}", c.threads, c.depth));
    sh.sample("under-load", || json!(c));
    let wrong = under_load(c, false);
    if !wrong.is_empty() {
        fail!("eq:unstable-under-load", "{} threads × depth {} × {} rounds: {} wrong answers, e.g. {}", c.threads, c.depth, c.rounds, wrong.len(), wrong[0]);
    }
    Ok(())
}

pub fn streams() -> Vec<Box<dyn AnyStream>> {
    vec![
        Box::new(Stream::<u8> {
            name: "small-universe",
            quick: 0,
            thorough: 0,
            source: Source::Enum(Box::new(|_| Box::new(vec![0u8].into_iter()))),
            check: Box::new(check_universe),
        }),
        Box::new(Stream::<LoadCase> {
            name: "under-load",
            quick: 0,
            thorough: 0,
            source: Source::Enum(Box::new(|_| Box::new(load_cases().into_iter()))),
            check: Box::new(check_load),
        }),
        Box::new(Stream::<Case> {
        name: "pairs",
        quick: 12_000,
        thorough: 800_000,
        source: Source::Gen(Box::new(strategy)),
        check: Box::new(check),
    })]
}

pub const PROP: Prop = Prop {
    id: "C06",
    rule: "cases = (description a, one semantic edit of a, independent description, three choice tapes); each case builds 4 terms × 8 repetitions along different histories (insertion permutations, duplicate insertions, operand order of symmetric statements, constructor / bare variant / push_components / separate parse) and compares all ordered pairs with the canonical-form oracle, plus reflexivity, symmetry, transitivity and the Narsese/Sentence/Task wrappers; non-trivial = a contains an unordered compound with ≥ 2 distinct elements or a symmetric statement with distinct operands; distinct = fingerprint of (a, edit)",
    assumptions: &[
        "hash seeds cannot be chosen: they are re-drawn by rebuilding every value 8 times per case (fresh RandomState per HashSet)",
        "the canonical form is computed by the harness from the public enum variants and is the NAL reading stated in the property",
    ],
    streams,
};
