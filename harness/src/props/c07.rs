//! C07 — equal terms hash equally; terms work as hash-map / hash-set keys.
use crate::desc::*;
use crate::engine::*;
use crate::fail;
use crate::gen;
use crate::plan::*;
use crate::props::c06;
use narsese::enum_narsese::Term;
use proptest::prelude::*;
use serde::{Deserialize, Serialize};
use serde_json::json;
use std::collections::hash_map::{DefaultHasher, RandomState};
use std::collections::{HashMap, HashSet};
use std::hash::{BuildHasher, Hash, Hasher};

#[derive(Clone, Debug, Serialize, Deserialize)]
pub struct Case {
    pub a: D,
    /// neutral edits are applied (swap inside sets / symmetric statements, duplicates)
    pub edit: Edit,
    pub t1: Vec<u8>,
    pub t2: Vec<u8>,
}

fn build(d: &D, tape: &[u8], offset: usize, sh: &Shared) -> Term {
    let mut tp = Tape::new(tape, offset);
    let t = if tp.next() % 4 == 0 {
        match build_by_parse(d, &mut tp) {
            Some(t) => t,
            None => build_plan(d, &mut tp),
        }
    } else if tp.next() % 6 == 0 {
        sh.class("history/constructed-on-other-thread");
        let off = tp.next() as usize;
        std::thread::scope(|s| std::thread::Builder::new().stack_size(64 << 20).spawn_scoped(s, || build_plan(d, &mut Tape::new(tape, off))).unwrap().join().unwrap())
    } else {
        build_plan(d, &mut tp)
    };
    if canon_t(&t) != canon_d(d) {
        sh.class("inconclusive/build-mismatch");
        return build_raw(d);
    }
    t
}

pub fn check(sh: &Shared, c: &Case) -> Check {
    if !c.a.arity_ok() {
        fail!("harness/bad-case", "description violates arity");
    }
    sh.eval();
    // second description: the edit if it is semantically neutral, else the same description
    let edited = apply_edit(&c.a, &c.edit);
    let b = if canon_d(&edited) == canon_d(&c.a) { edited } else { c.a.clone() };
    if c06::has_unordered_choice(&c.a) {
        sh.nontrivial(fp(&(&c.a, &b)));
        sh.class("shape/unordered-choice");
        sh.sample("unordered", || json!({"a": c.a, "b": b}));
    }
    if b != c.a {
        sh.class("pair/neutral-edit");
    }
    for rep in 0..4usize {
        let x = build(&c.a, &c.t1, rep * 5, sh);
        let y = build(&b, &c.t2, rep * 5 + 1, sh);
        match guard(|| x == y) {
            Err(p) => fail!("eq:panic", "== panicked {p}"),
            Ok(false) => {
                // equality itself is C06's property; the hash law is conditional on ==
                sh.class("inconclusive/library-eq-false");
                continue;
            }
            Ok(true) => {}
        }
        let res = guard(|| {
            let rs = RandomState::new();
            let h1 = rs.hash_one(&x);
            let h2 = rs.hash_one(&y);
            let mut d1 = DefaultHasher::new();
            x.hash(&mut d1);
            let mut d2 = DefaultHasher::new();
            y.hash(&mut d2);
            let set: HashSet<Term> = HashSet::from([x.clone()]);
            let contains = set.contains(&y);
            let mut map: HashMap<Term, u32> = HashMap::new();
            map.insert(x.clone(), 1);
            let got = map.get(&y).copied();
            let mut both: HashSet<Term> = HashSet::new();
            both.insert(x.clone());
            both.insert(y.clone());
            (h1 == h2, d1.finish() == d2.finish(), contains, got, both.len())
        });
        // the same, with the second operand hashed / looked up on ANOTHER thread (same hasher state)
        if rep == 0 && c.t1.first().map(|b| b % 4 == 0).unwrap_or(false) {
            sh.class("history/hashed-on-other-thread");
            let rs = RandomState::new();
            let h1 = rs.hash_one(&x);
            let set: HashSet<Term> = HashSet::from([x.clone()]);
            let (h2, found) = std::thread::scope(|s| {
                std::thread::Builder::new().stack_size(64 << 20).spawn_scoped(s, || (rs.hash_one(&y), set.contains(&y))).unwrap().join().unwrap()
            });
            if h1 != h2 || !found {
                fail!("hash:thread-dependent", "equal terms: hash on this thread {h1:#x}, on another thread {h2:#x} (same RandomState); a set filled here finds the equal key from the other thread: {found}\nx = {:?}\ny = {:?}", c.a, b);
            }
        }
        match res {
            Err(p) => fail!("hash:panic", "hashing panicked: {p}"),
            Ok((rs_eq, dh_eq, contains, got, len)) => {
                if !rs_eq || !dh_eq {
                    fail!("hash:differs", "repetition {rep}: equal terms hash differently (RandomState equal: {rs_eq}, DefaultHasher equal: {dh_eq})\nx = {:?}\ny = {:?}", c.a, b);
                }
                if !contains || got != Some(1) || len != 1 {
                    fail!("hash:lookup-fails", "repetition {rep}: HashSet{{x}}.contains(y)={contains}, map.get(y)={got:?}, |{{x,y}}|={len}\nx = {:?}\ny = {:?}", c.a, b);
                }
            }
        }
    }
    Ok(())
}

/// every semantically equal pair of the C06 small universe must hash equally
pub fn check_universe(sh: &Shared, _c: &u8) -> Check {
    let u = c06::small_universe();
    let canons: Vec<C> = u.iter().map(canon_d).collect();
    let t1: Vec<Term> = u.iter().map(build_raw).collect();
    let t2: Vec<Term> = u.iter().map(build_ctor).collect();
    let rs = RandomState::new();
    let h1: Vec<u64> = t1.iter().map(|t| rs.hash_one(t)).collect();
    let h2: Vec<u64> = t2.iter().map(|t| rs.hash_one(t)).collect();
    let mut index: std::collections::HashMap<&C, Vec<usize>> = std::collections::HashMap::new();
    for (i, c) in canons.iter().enumerate() {
        index.entry(c).or_default().push(i);
    }
    for group in index.values() {
        for &i in group {
            for &j in group {
                sh.eval();
                if !guard(|| t1[i] == t2[j]).unwrap_or(false) {
                    sh.class("inconclusive/library-eq-false");
                    continue;
                }
                if i != j {
                    sh.nontrivial(fp(&(i, j)));
                }
                if h1[i] != h2[j] {
                    fail!("hash:differs", "small universe: equal terms hash differently\nx = {:?}\ny = {:?}", u[i], u[j]);
                }
                let set: HashSet<Term> = HashSet::from([t1[i].clone()]);
                if !set.contains(&t2[j]) {
                    fail!("hash:lookup-fails", "small universe: HashSet{{x}}.contains(y) is false\nx = {:?}\ny = {:?}", u[i], u[j]);
                }
            }
        }
    }
    Ok(())
}

pub fn neutral_edit() -> BoxedStrategy<Edit> {
    prop_oneof![
        60 => (any::<u16>(), any::<u16>()).prop_map(|(i, j)| Edit::SwapKids(i, j)),
        30 => (any::<u16>(), any::<u16>()).prop_map(|(i, j)| Edit::DupKid(i, j)),
        10 => Just(Edit::None),
    ]
    .boxed()
}

pub fn strategy() -> BoxedStrategy<Case> {
    (gen::term(c06::opts()), neutral_edit(), gen::tape(), gen::tape()).prop_map(|(a, edit, t1, t2)| Case { a, edit, t1, t2 }).boxed()
}

/// Adversarial component pairs: words whose digests (the library's own `Hash` under the keyless
/// `DefaultHasher`, which is what a per-component digest of an order-independent combiner would be)
/// agree in their low 32, high 32, low 16 or low 8 bits — found by a birthday search over 400 000
/// names. A combiner that orders, buckets or truncates component digests shows only on such pairs.
pub fn digest_collisions() -> Vec<Case> {
    const N: usize = 400_000;
    let digest = |name: &str| {
        let mut h = DefaultHasher::new();
        Term::Word(name.to_string()).hash(&mut h);
        h.finish()
    };
    let ds: Vec<u64> = (0..N).map(|i| digest(&format!("w{i}"))).collect();
    let mut pairs: Vec<(usize, usize)> = vec![];
    let keys: [(&dyn Fn(u64) -> u64, usize); 4] = [(&|d| d & 0xffff_ffff, 12), (&|d| d >> 32, 12), (&|d| d & 0xffff, 6), (&|d| d & 0xff, 4)];
    for (key, want) in keys.iter() {
        let mut seen: HashMap<u64, usize> = HashMap::new();
        let mut found = 0;
        for (i, d) in ds.iter().enumerate() {
            if let Some(j) = seen.insert(key(*d), i) {
                pairs.push((j, i));
                found += 1;
                if found >= *want {
                    break;
                }
            }
        }
    }
    let mut out = vec![];
    let tapes: [Vec<u8>; 3] = [vec![1, 1, 1, 1, 1, 1], vec![2, 3, 5, 7, 11, 13, 17], vec![9, 9, 200, 3, 77, 1, 0, 4]];
    for (i, j) in pairs {
        let a = D::word(&format!("w{i}"));
        let b = D::word(&format!("w{j}"));
        let c = D::word("c");
        let shapes = vec![
            D::node(Sim, vec![a.clone(), b.clone()]),
            D::node(Equ, vec![b.clone(), a.clone()]),
            D::node(SetExt, vec![a.clone(), b.clone()]),
            D::node(Conj, vec![a.clone(), c.clone(), b.clone()]),
            D::node(SetInt, vec![D::node(IntExt, vec![a.clone(), b.clone()]), c.clone()]),
            D::node(Product, vec![D::node(Par, vec![b.clone(), a.clone()]), D::node(EquConc, vec![a.clone(), b.clone()])]),
        ];
        for sh in shapes {
            for (k, t) in tapes.iter().enumerate() {
                out.push(Case { a: sh.clone(), edit: Edit::SwapKids(0, 0), t1: t.clone(), t2: tapes[(k + 1) % 3].clone() });
            }
        }
    }
    out
}

pub fn check_load(sh: &Shared, c: &c06::LoadCase) -> Check {
    sh.evals((c.threads * c.rounds * 2) as u64);
    sh.nontrivial(fp(c));
    sh.class(&format!("under-load/{}x{}", c.threads, c.depth));
    let wrong: Vec<String> = c06::under_load(c, true).into_iter().filter(|w| w.contains("hash") || w.contains("HashSet") || w.contains("panicked")).collect();
    if !wrong.is_empty() {
        fail!("hash:unstable-under-load", "{} threads × depth {} × {} rounds: {} wrong answers, e.g. {}", c.threads, c.depth, c.rounds, wrong.len(), wrong[0]);
    }
    Ok(())
}

pub fn streams() -> Vec<Box<dyn AnyStream>> {
    vec![
        Box::new(Stream::<c06::LoadCase> {
            name: "under-load",
            quick: 0,
            thorough: 0,
            source: Source::Enum(Box::new(|_| Box::new(c06::load_cases().into_iter()))),
            check: Box::new(check_load),
        }),
        Box::new(Stream::<u8> {
            name: "small-universe",
            quick: 0,
            thorough: 0,
            source: Source::Enum(Box::new(|_| Box::new(vec![0u8].into_iter()))),
            check: Box::new(check_universe),
        }),
        Box::new(Stream::<Case> {
            name: "digest-collisions",
            quick: 0,
            thorough: 0,
            source: Source::Enum(Box::new(|_| Box::new(digest_collisions().into_iter()))),
            check: Box::new(check),
        }),
        Box::new(Stream::<Case> {
        name: "equal-pairs",
        quick: 25_000,
        thorough: 2_000_000,
        source: Source::Gen(Box::new(strategy)),
        check: Box::new(check),
    })]
}

pub const PROP: Prop = Prop {
    id: "C07",
    rule: "cases = (description a, semantically neutral edit, two choice tapes); 4 repetitions build two semantically equal terms along different histories (insertion order, duplicates, operand order, constructor / variant / push / separate parse) and compare RandomState::hash_one, DefaultHasher, HashSet::contains, HashMap::get and the size of a set fed both; non-trivial = a contains an unordered compound with ≥ 2 distinct elements or a symmetric statement with distinct operands; distinct = fingerprint of the description pair",
    assumptions: &[
        "the hash law is checked for pairs the library itself reports equal (a semantically equal pair reported unequal is C06's violation and counted here as inconclusive)",
        "hash seeds are re-drawn by rebuilding, not chosen",
    ],
    streams,
};
