//! C11 — ASCII output conforms to the published CommonNarsese grammar and OpenNARS lexicon.
use crate::desc::*;
use crate::engine::*;
use crate::fail;
use crate::fmts;
use crate::gen;
use crate::lexgen::*;
use crate::peg;
use proptest::prelude::*;
use serde::{Deserialize, Serialize};
use serde_json::json;

// ---- the OpenNARS-compatible lexicon, typed in by hand (independent of the library's tables)
fn on_prefix(k: Kind) -> &'static str {
    match k {
        Word => "",
        Placeholder => "_",
        IVar => "$",
        DVar => "#",
        QVar => "?",
        Interval => "+",
        Op => "^",
        _ => "",
    }
}
fn on_connecter(k: Kind) -> &'static str {
    match k {
        IntExt => "&",
        IntInt => "|",
        DiffExt => "-",
        DiffInt => "~",
        Product => "*",
        ImgExt => "/",
        ImgInt => "\\",
        Conj => "&&",
        Disj => "||",
        Neg => "--",
        Seq => "&/",
        Par => "&|",
        _ => "",
    }
}
fn on_copula(k: Kind) -> &'static str {
    match k {
        Inh => "-->",
        Sim => "<->",
        Imp => "==>",
        Equ => "<=>",
        ImpPred => "=/>",
        ImpConc => "=|>",
        ImpRetro => "=\\>",
        EquPred => "</>",
        EquConc => "<|>",
        _ => "",
    }
}
fn on_punct(p: P) -> &'static str {
    match p {
        P::Judgement => ".",
        P::Goal => "!",
        P::Question => "?",
        P::Quest => "@",
    }
}
fn on_stamp(s: St) -> String {
    match s {
        St::Eternal => String::new(),
        St::Past => ":\\:".to_string(),
        St::Present => ":|:".to_string(),
        St::Future => ":/:".to_string(),
        St::Fixed(t) => format!(":!{t}:"),
    }
}

/// expected lexical tree of a description under the OpenNARS lexicon
fn expected_tree(d: &D) -> LT {
    if d.k.is_atom() {
        let name = match d.k {
            Interval => d.n.to_string(),
            Placeholder => String::new(),
            _ => d.name.clone(),
        };
        return LT::Atom { prefix: on_prefix(d.k).to_string(), name };
    }
    let mut kids: Vec<LT> = d.kids.iter().map(expected_tree).collect();
    match d.k {
        SetExt => LT::Set { left: "{".into(), terms: kids, right: "}".into() },
        SetInt => LT::Set { left: "[".into(), terms: kids, right: "]".into() },
        k if k.is_statement() => {
            let p = kids.pop().unwrap();
            let s = kids.pop().unwrap();
            LT::Statement { copula: on_copula(k).to_string(), subject: Box::new(s), predicate: Box::new(p) }
        }
        k => {
            if k.is_image() {
                kids.insert(d.n.min(kids.len()), LT::atom("_", ""));
            }
            LT::Compound { connecter: on_connecter(k).to_string(), terms: kids }
        }
    }
}

/// order-normalise the nodes that the lexicon declares unordered (the formatter prints a
/// HashSet in its own order): sets and & | && || &|
fn normalise(t: &LT) -> LT {
    match t {
        LT::Atom { .. } => t.clone(),
        LT::Statement { copula, subject, predicate } => LT::Statement { copula: copula.clone(), subject: Box::new(normalise(subject)), predicate: Box::new(normalise(predicate)) },
        LT::Set { left, terms, right } => {
            let mut v: Vec<LT> = terms.iter().map(normalise).collect();
            v.sort_by_key(|x| format!("{x:?}"));
            v.dedup();
            LT::Set { left: left.clone(), terms: v, right: right.clone() }
        }
        LT::Compound { connecter, terms } => {
            let mut v: Vec<LT> = terms.iter().map(normalise).collect();
            if matches!(connecter.as_str(), "&" | "|" | "&&" | "||" | "&|") {
                v.sort_by_key(|x| format!("{x:?}"));
                v.dedup();
            }
            LT::Compound { connecter: connecter.clone(), terms: v }
        }
    }
}

/// truth / budget entries are compared as numbers (the lexicon fixes keywords, not how a
/// number is spelt: `1` vs `1.0` must not matter)
fn num(s: &str) -> String {
    match s.parse::<f64>() {
        Ok(x) => format!("#{:016x}", x.to_bits()),
        Err(_) => s.to_string(),
    }
}

fn normalise_n(v: &LN) -> LN {
    let sen = |s: &LS| LS { term: normalise(&s.term), punct: s.punct.clone(), stamp: s.stamp.clone(), truth: s.truth.iter().map(|x| num(x)).collect() };
    match v {
        LN::Term(t) => LN::Term(normalise(t)),
        LN::Sentence(s) => LN::Sentence(sen(s)),
        LN::Task { budget, s } => LN::Task { budget: budget.iter().map(|x| num(x)).collect(), s: sen(s) },
    }
}

fn expected_of_nd(v: &ND) -> LN {
    let sen = |s: &SD| LS { term: expected_tree(&s.term), punct: on_punct(s.punct).to_string(), stamp: on_stamp(s.stamp), truth: s.truth.iter().map(|x| x.f().to_string()).collect() };
    match v {
        ND::Term(d) => LN::Term(expected_tree(d)),
        ND::Sentence(s) => LN::Sentence(sen(s)),
        ND::Task(t) => LN::Task { budget: t.budget.iter().map(|x| x.f().to_string()).collect(), s: sen(&t.s) },
    }
}

/// grammar vs library's ASCII lexical parser on one text
fn grammar_vs_library(text: &str, kind: &str) -> Result<LN, Failure> {
    let g = match peg::recognise(text) {
        Ok(g) => g,
        Err(e) => return Err(Failure::new("grammar:rejects", format!("the README grammar does not derive the formatter's output\ntext {text:?}\n{e}"))),
    };
    if g.kind_name() != kind {
        return Err(Failure::new("grammar:kind", format!("text {text:?}\nvalue is a {kind}, the README grammar classifies it as a {}", g.kind_name())));
    }
    match crate::pipes::lexical_parse_raw(fmts::ASCII, text) {
        Err(p) => Err(Failure::new("library:panic", format!("text {text:?}\n{p}"))),
        Ok(Err(e)) => Err(Failure::new("library:rejects", format!("text {text:?}\nthe ASCII lexical parser fails: {e}"))),
        Ok(Ok(v)) => {
            let lib = LN::from_lex(&v);
            if lib != g {
                return Err(Failure::new("grammar:tree-differs", format!("text {text:?}\nREADME grammar derives {g:?}\nlexical parser returns {lib:?}")));
            }
            Ok(g)
        }
    }
}

#[derive(Clone, Debug, Serialize, Deserialize)]
pub enum Case {
    Enum(ND),
    Lexical(LN),
}

pub fn check(sh: &Shared, c: &Case) -> Check {
    sh.eval();
    match c {
        Case::Enum(nd) => {
            if !nd.term().arity_ok() {
                fail!("harness/bad-case", "description violates arity");
            }
            sh.class(&format!("enum/{}", nd.kind_name()));
            let v = build_n(nd);
            let text = guard(|| fmts::e(fmts::ASCII).format_narsese(&v)).map_err(|p| Failure::new("format:panic", p))?;
            if !matches!(nd, ND::Term(d) if d.k.is_atom()) {
                sh.nontrivial(fp(&text));
                sh.sample(&format!("enum/{}", nd.kind_name()), || json!({"text": text}));
            }
            nd.term().visit(&mut |d| sh.class(&format!("has/{:?}", d.k)));
            let g = grammar_vs_library(&text, nd.kind_name())?;
            // the keywords are exactly those of the OpenNARS lexicon
            let want = normalise_n(&expected_of_nd(nd));
            let got = normalise_n(&g);
            if got != want {
                fail!("lexicon:differs", "text {text:?}\ntree derived by the grammar {got:?}\nexpected under the OpenNARS lexicon {want:?}");
            }
            Ok(())
        }
        Case::Lexical(x) => {
            sh.class(&format!("lexical/{}", x.kind_name()));
            let text = guard(|| fmts::l(fmts::ASCII).format_narsese(&x.to_lex())).map_err(|p| Failure::new("format:panic", p))?;
            if !x.term().is_atom() {
                sh.nontrivial(fp(&text));
                sh.sample(&format!("lexical/{}", x.kind_name()), || json!({"text": text}));
            }
            let g = grammar_vs_library(&text, x.kind_name())?;
            if g != *x {
                fail!("grammar:not-the-value", "text {text:?}\ngrammar derives {g:?}\nformatted value  {x:?}");
            }
            Ok(())
        }
    }
}

pub fn strategy() -> BoxedStrategy<Case> {
    let o = gen::TermOpts { profile: gen::NameProfile::Peg, ..gen::TermOpts::main(fmts::ASCII) };
    prop_oneof![
        55 => gen::narsese(o).prop_map(Case::Enum),
        45 => vocab_value(fmts::ASCII, gen::NameProfile::Peg).prop_map(Case::Lexical),
    ]
    .boxed()
}

pub fn small_scope() -> Vec<Case> {
    let mut out: Vec<Case> = crate::props::c01::small_scope().into_iter().filter(|(fi, _)| *fi == fmts::ASCII).map(|(_, nd)| Case::Enum(nd)).collect();
    out.extend(crate::props::c02::small_scope().into_iter().filter(|(fi, _)| *fi == fmts::ASCII).step_by(7).map(|(_, x)| Case::Lexical(x)));
    out
}

pub fn streams() -> Vec<Box<dyn AnyStream>> {
    vec![
        Box::new(Stream::<Case> {
            name: "nested-pairs",
            quick: 0,
            thorough: 0,
            source: Source::Enum(Box::new(|_| Box::new(crate::props::c01::nested_pairs().into_iter().filter(|(fi, _)| *fi == fmts::ASCII).map(|(_, nd)| Case::Enum(nd))))),
            check: Box::new(check),
        }),
        Box::new(Stream::<Case> {
            name: "small-scope",
            quick: 0,
            thorough: 0,
            source: Source::Enum(Box::new(|_| Box::new(small_scope().into_iter()))),
            check: Box::new(check),
        }),
        Box::new(Stream::<Case> {
            name: "conformance",
            quick: 40_000,
            thorough: 3_000_000,
            source: Source::Gen(Box::new(strategy)),
            check: Box::new(check),
        }),
    ]
}

pub const PROP: Prop = Prop {
    id: "C11",
    rule: "cases = well-formed enum values and vocabulary-consistent lexical values, ASCII only, names from letters / digits / '_' / inner '-' (no emoji; no '-' flanked on both sides by '_' or '-', finding K1); the ASCII formatter's output must be derived completely by a recogniser written from the README PEG (pest semantics), with the same kind, and with a tree equal to the ASCII lexical parser's; for enum values the tree must also equal the one expected under a hard-coded OpenNARS lexicon (unordered nodes order-normalised), for lexical values the value itself; plus the C01/C02 small-scope sets restricted to ASCII; non-trivial = not a bare atom; distinct = fingerprint of the text",
    assumptions: &[
        "README.md (the crate's `readme`) is authoritative where README.en.md differs (\"_\"+ vs the typo \"_\" ~)",
        "Unicode general categories are exact for ASCII; outside ASCII only letters, numbers and white space occur in this domain and are classified with std's predicates",
        "pest's top-level use is SOI ~ narsese ~ EOI: the whole text must be consumed without re-entering the ordered choice",
    ],
    streams,
};
