//! C13 — truth, budget and evidence numbers accept exactly the closed unit interval.
use crate::desc::*;
use crate::engine::*;
use crate::fail;
use narsese::api::EvidentNumber;
use narsese::enum_narsese::{Budget, Truth};
use proptest::collection::vec;
use proptest::prelude::*;
use proptest::sample::select;
use serde::{Deserialize, Serialize};
use serde_json::json;

#[derive(Clone, Debug, Serialize, Deserialize)]
pub struct Case {
    /// f64 bit patterns
    pub vals: Vec<u64>,
    pub n: usize,
}

fn in01(x: f64) -> bool {
    x >= 0.0 && x <= 1.0
}

pub fn special_pool() -> Vec<f64> {
    vec![
        f64::NEG_INFINITY,
        -1.0,
        -5e-324,
        -0.0,
        0.0,
        5e-324,
        f64::MIN_POSITIVE,
        0.5,
        1.0 - f64::EPSILON / 2.0,
        1.0,
        1.0 + f64::EPSILON,
        2.0,
        f64::MAX,
        f64::INFINITY,
        f64::NAN,
        f64::from_bits(0xfff8_0000_0000_0001),
    ]
}

fn is_special(x: f64) -> bool {
    special_pool().iter().any(|s| s.to_bits() == x.to_bits())
}

fn same(a: f64, b: f64) -> bool {
    a.to_bits() == b.to_bits()
}

pub fn check(sh: &Shared, c: &Case) -> Check {
    let v: Vec<f64> = c.vals.iter().map(|b| f64::from_bits(*b)).collect();
    let show: Vec<String> = v.iter().map(|x| format!("{x:?}")).collect();
    sh.class(&format!("arity/{}", v.len()));
    if v.iter().any(|x| is_special(*x)) {
        sh.nontrivial(fp(&c.vals));
        sh.sample(&format!("arity{}", v.len()), || json!({"values": show}));
    }
    // ---- Truth
    sh.eval();
    let consumed_ok = v.iter().take(2).all(|x| in01(*x));
    match guard(|| Truth::try_from_floats(v.clone().into_iter())) {
        Err(p) => fail!("truth:try_from_floats-panicked", "values {show:?}\npanic {p}"),
        Ok(r) => {
            if r.is_ok() != consumed_ok {
                fail!("truth:acceptance", "Truth::try_from_floats({show:?}) is {} but all consumed components in [0,1] = {consumed_ok}", if r.is_ok() { "Ok" } else { "Err" });
            }
            if let Ok(t) = r {
                let k = v.len().min(2);
                let stored: Vec<f64> = match &t {
                    Truth::Empty => vec![],
                    Truth::Single(f) => vec![*f],
                    Truth::Double(f, c) => vec![*f, *c],
                };
                if stored.len() != k || !stored.iter().zip(v.iter()).all(|(a, b)| same(*a, *b)) {
                    fail!("truth:stored", "Truth::try_from_floats({show:?}) = {t:?}: expected the first {k} numbers unchanged");
                }
                let f = guard(|| t.f());
                let cc = guard(|| t.c());
                if f.is_ok() != (k >= 1) || cc.is_ok() != (k >= 2) {
                    fail!("truth:accessor-panics", "{t:?}: f() ok={} c() ok={} for {k} components", f.is_ok(), cc.is_ok());
                }
                if let Ok(x) = f {
                    if !same(x, v[0]) {
                        fail!("truth:accessor-value", "{t:?}.f() = {x:?}");
                    }
                }
                if let Ok(x) = cc {
                    if !same(x, v[1]) {
                        fail!("truth:accessor-value", "{t:?}.c() = {x:?}");
                    }
                }
                // every spelling of the accessors (trait methods included)
                {
                    use narsese::api::EvidentValue;
                    let fs = [guard(|| t.frequency()), guard(|| t.get_frequency()), guard(|| t.get_frequency_confidence().0)];
                    let cs = [guard(|| t.confidence()), guard(|| t.get_confidence()), guard(|| t.get_frequency_confidence().1)];
                    for (i, r) in fs.iter().enumerate() {
                        // the pair accessor needs both components
                        let need = if i == 2 { 2 } else { 1 };
                        match r {
                            Ok(x) => {
                                if k < need || !same(*x, v[0]) {
                                    fail!("truth:accessor-value", "{t:?}: frequency accessor #{i} returned {x:?}");
                                }
                            }
                            Err(_) => {
                                if k >= need {
                                    fail!("truth:accessor-panics", "{t:?}: frequency accessor #{i} panicked");
                                }
                            }
                        }
                    }
                    for (i, r) in cs.iter().enumerate() {
                        match r {
                            Ok(x) => {
                                if k < 2 || !same(*x, v[1]) {
                                    fail!("truth:accessor-value", "{t:?}: confidence accessor #{i} returned {x:?}");
                                }
                            }
                            Err(_) => {
                                if k >= 2 {
                                    fail!("truth:accessor-panics", "{t:?}: confidence accessor #{i} panicked");
                                }
                            }
                        }
                    }
                }
            }
        }
    }
    if !v.is_empty() {
        let p = guard(|| Truth::new_single(v[0]));
        if p.is_ok() != in01(v[0]) {
            fail!("truth:new_single", "Truth::new_single({}) returned={} but in [0,1]={}", show[0], p.is_ok(), in01(v[0]));
        }
        if let Ok(Truth::Single(x)) = p {
            if !same(x, v[0]) {
                fail!("truth:new_single-value", "stored {x:?} for {}", show[0]);
            }
        } else if p.is_ok() {
            fail!("truth:new_single-variant", "new_single did not build Single");
        }
    }
    if v.len() >= 2 {
        let p = guard(|| Truth::new_double(v[0], v[1]));
        let want = in01(v[0]) && in01(v[1]);
        if p.is_ok() != want {
            fail!("truth:new_double", "Truth::new_double({},{}) returned={} expected={want}", show[0], show[1], p.is_ok());
        }
        if let Ok(t) = p {
            if !matches!(t, Truth::Double(a, b) if same(a, v[0]) && same(b, v[1])) {
                fail!("truth:new_double-value", "built {t:?}");
            }
        }
    }
    // the outcome does not depend on the KIND of iterator (exact-size, filtered, generated, chained)
    {
        let want = guard(|| Truth::try_from_floats(v.clone().into_iter())).ok();
        let vv = v.clone();
        let mut i = 0usize;
        let variants: Vec<Option<Result<Truth, String>>> = vec![
            guard(|| Truth::try_from_floats(v.clone().into_iter().filter(|_| true))).ok(),
            guard(|| Truth::try_from_floats(std::iter::from_fn(move || { let r = vv.get(i).copied(); i += 1; r }))).ok(),
            guard(|| Truth::try_from_floats(v.iter().copied().chain(std::iter::empty()))).ok(),
            guard(|| Truth::try_from_floats(v.iter().map(|x| x.to_string()).collect::<Vec<_>>().iter().filter_map(|s| s.parse::<f64>().ok()))).ok(),
        ];
        let same = |a: &Option<Result<Truth, String>>, b: &Option<Result<Truth, String>>| match (a, b) {
            (None, None) => true,
            (Some(Err(_)), Some(Err(_))) => true,
            (Some(Ok(x)), Some(Ok(y))) => format!("{x:?}") == format!("{y:?}"),
            _ => false,
        };
        // (the string round-trip variant is only comparable when no NaN payload is involved)
        let nan = v.iter().any(|x| x.is_nan());
        for (k, var) in variants.iter().enumerate() {
            if k == 3 && nan {
                continue;
            }
            if !same(&want, var) {
                fail!("truth:iterator-kind", "Truth::try_from_floats({show:?}) gives {want:?} from a Vec iterator but {var:?} from iterator variant {k} (0 filter, 1 from_fn, 2 chain, 3 parsed strings)");
            }
        }
        let wantb = guard(|| Budget::try_from_floats(v.clone().into_iter())).ok();
        let varb = guard(|| Budget::try_from_floats(v.clone().into_iter().filter(|_| true))).ok();
        let sameb = match (&wantb, &varb) {
            (None, None) => true,
            (Some(Err(_)), Some(Err(_))) => true,
            (Some(Ok(x)), Some(Ok(y))) => format!("{x:?}") == format!("{y:?}"),
            _ => false,
        };
        if !sameb {
            fail!("budget:iterator-kind", "Budget::try_from_floats({show:?}) gives {wantb:?} from a Vec iterator but {varb:?} from a filtered iterator");
        }
    }
    // "as many components as were supplied": what an iterator supplies ends at its FIRST None.
    // A non-fused iterator (from_fn over tokens, a channel, a parser that resumes after a
    // non-number) may yield again afterwards; those later items were not supplied.
    for cut in 0..=v.len().min(3) {
        let script = |cut: usize| {
            let vv = v.clone();
            let mut i = 0usize;
            let mut gap_done = false;
            std::iter::from_fn(move || {
                if i == cut && !gap_done {
                    gap_done = true;
                    return None;
                }
                let r = vv.get(i).copied();
                i += 1;
                r
            })
        };
        let dbg = |r: Option<String>| r.unwrap_or_else(|| "panic".into());
        let want_t = dbg(guard(|| Truth::try_from_floats(v[..cut].to_vec().into_iter())).ok().map(|r| format!("{:?}", r.map_err(|_| ()))));
        let got_t = dbg(guard(|| Truth::try_from_floats(script(cut))).ok().map(|r| format!("{:?}", r.map_err(|_| ()))));
        if want_t != got_t {
            fail!("truth:polled-after-end", "Truth::try_from_floats over an iterator that yields {:?}, then None, then {:?}: got {got_t}, but the supplied sequence {:?} gives {want_t}", &show[..cut], &show[cut..], &show[..cut]);
        }
        let want_b = dbg(guard(|| Budget::try_from_floats(v[..cut].to_vec().into_iter())).ok().map(|r| format!("{:?}", r.map_err(|_| ()))));
        let got_b = dbg(guard(|| Budget::try_from_floats(script(cut))).ok().map(|r| format!("{:?}", r.map_err(|_| ()))));
        if want_b != got_b {
            fail!("budget:polled-after-end", "Budget::try_from_floats over an iterator that yields {:?}, then None, then {:?}: got {got_b}, but the supplied sequence {:?} gives {want_b}", &show[..cut], &show[cut..], &show[..cut]);
        }
    }
    // ---- Budget
    sh.eval();
    let consumed_ok = v.iter().take(3).all(|x| in01(*x));
    match guard(|| Budget::try_from_floats(v.clone().into_iter())) {
        Err(p) => fail!("budget:try_from_floats-panicked", "values {show:?}\npanic {p}"),
        Ok(r) => {
            if r.is_ok() != consumed_ok {
                fail!("budget:acceptance", "Budget::try_from_floats({show:?}) is {} but all consumed components in [0,1] = {consumed_ok}", if r.is_ok() { "Ok" } else { "Err" });
            }
            if let Ok(b) = r {
                let k = v.len().min(3);
                let stored: Vec<f64> = match &b {
                    Budget::Empty => vec![],
                    Budget::Single(p) => vec![*p],
                    Budget::Double(p, d) => vec![*p, *d],
                    Budget::Triple(p, d, q) => vec![*p, *d, *q],
                };
                if stored.len() != k || !stored.iter().zip(v.iter()).all(|(a, b)| same(*a, *b)) {
                    fail!("budget:stored", "Budget::try_from_floats({show:?}) = {b:?}: expected the first {k} numbers unchanged");
                }
                if b.is_empty() != (k == 0) {
                    fail!("budget:is_empty", "{b:?}.is_empty() = {}", b.is_empty());
                }
                let acc = [guard(|| b.p()), guard(|| b.d()), guard(|| b.q())];
                let long = [guard(|| b.priority()), guard(|| b.duality()), guard(|| b.quality())];
                for i in 0..3 {
                    if acc[i].is_ok() != (k > i) || long[i].is_ok() != (k > i) {
                        fail!("budget:accessor-panics", "{b:?}: accessor {i} ok={} for {k} components", acc[i].is_ok());
                    }
                    if let (Ok(x), Ok(y)) = (&acc[i], &long[i]) {
                        if !same(*x, v[i]) || !same(*y, v[i]) {
                            fail!("budget:accessor-value", "{b:?}: accessor {i} = {x:?}/{y:?}");
                        }
                    }
                }
            }
        }
    }
    if !v.is_empty() {
        let p = guard(|| Budget::new_single(v[0]));
        if p.is_ok() != in01(v[0]) {
            fail!("budget:new_single", "Budget::new_single({}) returned={}", show[0], p.is_ok());
        }
    }
    if v.len() >= 2 {
        let p = guard(|| Budget::new_double(v[0], v[1]));
        if p.is_ok() != (in01(v[0]) && in01(v[1])) {
            fail!("budget:new_double", "Budget::new_double({},{}) returned={}", show[0], show[1], p.is_ok());
        }
    }
    if v.len() >= 3 {
        let p = guard(|| Budget::new_triple(v[0], v[1], v[2]));
        let want = in01(v[0]) && in01(v[1]) && in01(v[2]);
        if p.is_ok() != want {
            fail!("budget:new_triple", "Budget::new_triple({},{},{}) returned={} expected={want}", show[0], show[1], show[2], p.is_ok());
        }
        if let Ok(b) = p {
            if !matches!(b, Budget::Triple(a, bb, cc) if same(a, v[0]) && same(bb, v[1]) && same(cc, v[2])) {
                fail!("budget:new_triple-value", "built {b:?}");
            }
        }
    }
    // ---- evidence numbers
    for x in &v {
        sh.eval();
        let x = *x;
        let valid = guard(|| EvidentNumber::is_valid(&x));
        let tv = guard(|| EvidentNumber::try_validate(&x).is_ok());
        let vv = guard(|| {
            let _ = EvidentNumber::validate(&x);
        });
        match (valid, tv) {
            (Ok(a), Ok(b)) => {
                if a != in01(x) || b != in01(x) || vv.is_ok() != in01(x) {
                    fail!("evidence:validity", "x = {x:?}: is_valid={a} try_validate.is_ok={b} validate returned={} reference={}", vv.is_ok(), in01(x));
                }
            }
            _ => fail!("evidence:panic", "is_valid / try_validate panicked for {x:?}"),
        }
        if in01(x) && c.n >= 1 {
            match guard(|| EvidentNumber::root(x, c.n)) {
                Err(p) => fail!("evidence:root-panic", "root({x:?}, {}) panicked: {p}", c.n),
                Ok(r) => {
                    if !in01(r) {
                        fail!("evidence:root-invalid", "root({x:?}, {}) = {r:?} is not in [0,1]", c.n);
                    }
                }
            }
        }
    }
    // the same agreements in other calling contexts (a destructor during unwinding, a thread-local
    // destructor at thread exit): one case in 16, the whole tuple at once
    if !v.is_empty() && c.vals.iter().fold(c.n as u64, |a, b| a.wrapping_mul(31).wrapping_add(*b)) % 16 == 0 {
        for ctx in crate::contexts::ALL {
            sh.eval();
            sh.class(&format!("context/{ctx:?}"));
            let vv = v.clone();
            let got = crate::contexts::run_in(ctx, move || {
                vv.iter()
                    .map(|x| {
                        let x = *x;
                        (
                            guard(|| EvidentNumber::is_valid(&x)).ok(),
                            guard(|| EvidentNumber::try_validate(&x).is_ok()).ok(),
                            guard(|| {
                                let _ = EvidentNumber::validate(&x);
                            })
                            .is_ok(),
                            guard(|| Truth::try_from_floats([x].into_iter()).is_ok()).ok(),
                            guard(|| Budget::new_single(x)).is_ok(),
                        )
                    })
                    .collect::<Vec<_>>()
            });
            let Ok(got) = got else {
                sh.class("inconclusive/context-thread-not-started");
                continue;
            };
            let Some(got) = got else { fail!("context:thread-died", "the thread evaluating {show:?} inside {ctx:?} died") };
            for (x, g) in v.iter().zip(got.iter()) {
                let want = in01(*x);
                if *g != (Some(want), Some(want), want, Some(want), want) {
                    fail!("evidence:context-dependent", "x = {x:?} inside {ctx:?}: (is_valid, try_validate.is_ok, validate returned, Truth::try_from_floats.is_ok, Budget::new_single returned) = {g:?}, reference {want}");
                }
            }
        }
    }
    let z = <f64 as EvidentNumber>::zero();
    let o = <f64 as EvidentNumber>::one();
    if z != 0.0 || o != 1.0 {
        fail!("evidence:constants", "zero() = {z:?}, one() = {o:?}");
    }
    Ok(())
}

pub fn float() -> BoxedStrategy<u64> {
    prop_oneof![
        55 => select(special_pool()).prop_map(|x| x.to_bits()),
        20 => any::<u64>(),
        25 => (0u64..=(1u64 << 53)).prop_map(|m| (m as f64 / (1u64 << 53) as f64).to_bits()),
    ]
    .boxed()
}

pub fn strategy() -> BoxedStrategy<Case> {
    (vec(float(), 0..=5), prop_oneof![40 => (1usize..=64), 20 => select(vec![100usize, 1_000_000, usize::MAX, usize::MAX - 1, 1 << 31, (1 << 31) + 1, (1 << 31) - 1, u32::MAX as usize, 1 << 32, (1 << 32) + 1, 1 << 52, 1 << 53, (1 << 53) + 1, 1 << 62, 1 << 63, (1 << 63) + 1]), 40 => (1usize..=usize::MAX)]).prop_map(|(vals, n)| Case { vals, n }).boxed()
}

pub fn enumerate() -> Vec<Case> {
    let pool = special_pool();
    let mut out = vec![Case { vals: vec![], n: 2 }];
    for a in &pool {
        out.push(Case { vals: vec![a.to_bits()], n: 2 });
        for b in &pool {
            out.push(Case { vals: vec![a.to_bits(), b.to_bits()], n: 3 });
            for c in &pool {
                out.push(Case { vals: vec![a.to_bits(), b.to_bits(), c.to_bits()], n: 64 });
            }
        }
    }
    out
}

pub fn streams() -> Vec<Box<dyn AnyStream>> {
    vec![
        Box::new(Stream::<Case> {
            name: "special-tuples",
            quick: 0,
            thorough: 0,
            source: Source::Enum(Box::new(|_| Box::new(enumerate().into_iter()))),
            check: Box::new(check),
        }),
        Box::new(Stream::<Case> {
            name: "tuples",
            quick: 100_000,
            thorough: 10_000_000,
            source: Source::Gen(Box::new(strategy)),
            check: Box::new(check),
        }),
    ]
}

pub const PROP: Prop = Prop {
    id: "C13",
    rule: "cases = (tuple of 0..5 f64 bit patterns from {-inf,-1,-5e-324,-0.0,0,5e-324,MIN_POSITIVE,0.5,1-2^-53,1,1+2^-52,2,MAX,+inf, two NaN payloads} ∪ arbitrary bit patterns ∪ uniform [0,1], root degree n ∈ 1..64 ∪ {100,10^6}); the special pool × arity ≤ 3 is enumerated completely; oracle: reference predicate 0 ≤ x ≤ 1 for try_from_floats (over exact-size, filtered, generated, chained, string-parsing and NON-FUSED iterators: what is supplied ends at the first None) / new_* (panic ⇔ Err) / stored variant and numbers / accessors / is_valid-try_validate-validate / root / zero-one; non-trivial = the tuple contains a special value; distinct = fingerprint of the bit patterns",
    assumptions: &["-0.0 counts as inside [0,1] (0.0 <= -0.0 holds in IEEE-754)", "root is checked for n ≥ 1"],
    streams,
};
