//! Crash recorder: a check that dies by signal (stack overflow, abort, segfault) cannot
//! report the failing case itself. Every worker thread keeps the replay JSON of the case
//! it is executing in a global slot; a signal handler dumps all slots to files so that
//! ./check can replay the candidates in isolation and name the culprit.
use std::sync::atomic::{AtomicI32, AtomicPtr, AtomicUsize, Ordering};

const SLOTS: usize = 64;
static PTRS: [AtomicPtr<u8>; SLOTS] = [const { AtomicPtr::new(std::ptr::null_mut()) }; SLOTS];
static LENS: [AtomicUsize; SLOTS] = [const { AtomicUsize::new(0) }; SLOTS];
static NEXT: AtomicUsize = AtomicUsize::new(0);
static DUMP_FD_DIR: AtomicPtr<u8> = AtomicPtr::new(std::ptr::null_mut());
static PID: AtomicI32 = AtomicI32::new(0);

thread_local! {
    static MY_SLOT: usize = NEXT.fetch_add(1, Ordering::Relaxed) % SLOTS;
}

const CAP: usize = 256 * 1024;

/// publish the replay text of the case this thread is about to execute (copied into a
/// buffer owned by the thread's slot; texts longer than the buffer are not recorded)
pub fn publish(text: &str) {
    let slot = MY_SLOT.with(|s| *s);
    let mut ptr = PTRS[slot].load(Ordering::SeqCst);
    if ptr.is_null() {
        let b: Box<[u8]> = vec![0u8; CAP].into_boxed_slice();
        ptr = Box::into_raw(b) as *mut u8;
        PTRS[slot].store(ptr, Ordering::SeqCst);
    }
    LENS[slot].store(0, Ordering::SeqCst);
    let bytes = text.as_bytes();
    if bytes.len() <= CAP {
        unsafe {
            std::ptr::copy_nonoverlapping(bytes.as_ptr(), ptr, bytes.len());
        }
        LENS[slot].store(bytes.len(), Ordering::SeqCst);
    }
}

pub fn clear() {
    let slot = MY_SLOT.with(|s| *s);
    LENS[slot].store(0, Ordering::SeqCst);
}

extern "C" fn handler(sig: libc::c_int) {
    unsafe {
        let dir = DUMP_FD_DIR.load(Ordering::SeqCst);
        if !dir.is_null() {
            for k in 0..SLOTS {
                let len = LENS[k].load(Ordering::SeqCst);
                let ptr = PTRS[k].load(Ordering::SeqCst);
                if len == 0 || ptr.is_null() {
                    continue;
                }
                // path: <dir>/crash-<pid>-<k>.json  (built without allocation)
                let mut path = [0u8; 512];
                let mut n = 0usize;
                let mut p = dir;
                while *p != 0 && n < 400 {
                    path[n] = *p;
                    n += 1;
                    p = p.add(1);
                }
                for b in b"/crash-" {
                    path[n] = *b;
                    n += 1;
                }
                n += write_num(&mut path[n..], PID.load(Ordering::SeqCst) as u64);
                path[n] = b'-';
                n += 1;
                n += write_num(&mut path[n..], k as u64);
                for b in b".json\0" {
                    path[n] = *b;
                    n += 1;
                }
                let fd = libc::open(path.as_ptr() as *const libc::c_char, libc::O_WRONLY | libc::O_CREAT | libc::O_TRUNC, 0o644);
                if fd >= 0 {
                    let mut off = 0usize;
                    while off < len {
                        let w = libc::write(fd, ptr.add(off) as *const libc::c_void, len - off);
                        if w <= 0 {
                            break;
                        }
                        off += w as usize;
                    }
                    libc::close(fd);
                }
            }
        }
        // die with the original signal
        libc::signal(sig, libc::SIG_DFL);
        libc::raise(sig);
    }
}

fn write_num(buf: &mut [u8], mut v: u64) -> usize {
    let mut tmp = [0u8; 20];
    let mut i = 0;
    if v == 0 {
        tmp[0] = b'0';
        i = 1;
    }
    while v > 0 {
        tmp[i] = b'0' + (v % 10) as u8;
        v /= 10;
        i += 1;
    }
    for j in 0..i {
        buf[j] = tmp[i - 1 - j];
    }
    i
}

/// install the handlers; crash candidates go to `<dir>/crash-<pid>-<slot>.json`
pub fn install(dir: &std::path::Path) {
    let _ = std::fs::create_dir_all(dir);
    let c = std::ffi::CString::new(dir.to_string_lossy().as_bytes()).unwrap();
    DUMP_FD_DIR.store(c.into_raw() as *mut u8, Ordering::SeqCst);
    PID.store(std::process::id() as i32, Ordering::SeqCst);
    unsafe {
        for sig in [libc::SIGSEGV, libc::SIGABRT, libc::SIGBUS, libc::SIGILL] {
            let mut sa: libc::sigaction = std::mem::zeroed();
            sa.sa_sigaction = handler as *const () as usize;
            sa.sa_flags = libc::SA_ONSTACK | libc::SA_NODEFER;
            libc::sigemptyset(&mut sa.sa_mask);
            libc::sigaction(sig, &sa, std::ptr::null_mut());
        }
    }
}
