//! Handles on the three shipped formats (enum + lexical tables of the same name).
use narsese::conversion::string::impl_enum::format_instances as ef;
use narsese::conversion::string::impl_enum::NarseseFormat as EFormat;
use narsese::conversion::string::impl_lexical::format_instances as lf;
use narsese::conversion::string::impl_lexical::NarseseFormat as LFormat;

pub static E_ASCII: EFormat<&'static str> = ef::FORMAT_ASCII;
pub static E_LATEX: EFormat<&'static str> = ef::FORMAT_LATEX;
pub static E_HAN: EFormat<&'static str> = ef::FORMAT_HAN;

pub const ASCII: usize = 0;
pub const LATEX: usize = 1;
pub const HAN: usize = 2;
pub const FMT_NAMES: [&str; 3] = ["ascii", "latex", "han"];

pub fn e(fi: usize) -> &'static EFormat<&'static str> {
    match fi {
        0 => &E_ASCII,
        1 => &E_LATEX,
        _ => &E_HAN,
    }
}

pub fn l(fi: usize) -> &'static LFormat {
    match fi {
        0 => &lf::FORMAT_ASCII,
        1 => &lf::FORMAT_LATEX,
        _ => &lf::FORMAT_HAN,
    }
}

/// Every keyword string of an enum format (used for keyword soup and for
/// computing which characters are unsafe inside Han names).
pub fn e_keywords(fi: usize) -> Vec<&'static str> {
    let f = e(fi);
    let mut v = vec![
        f.space.parse,
        f.atom.prefix_placeholder,
        f.atom.prefix_variable_independent,
        f.atom.prefix_variable_dependent,
        f.atom.prefix_variable_query,
        f.atom.prefix_interval,
        f.atom.prefix_operator,
        f.compound.brackets.0,
        f.compound.brackets.1,
        f.compound.separator,
        f.compound.brackets_set_extension.0,
        f.compound.brackets_set_extension.1,
        f.compound.brackets_set_intension.0,
        f.compound.brackets_set_intension.1,
        f.compound.connecter_intersection_extension,
        f.compound.connecter_intersection_intension,
        f.compound.connecter_difference_extension,
        f.compound.connecter_difference_intension,
        f.compound.connecter_product,
        f.compound.connecter_image_extension,
        f.compound.connecter_image_intension,
        f.compound.connecter_conjunction,
        f.compound.connecter_disjunction,
        f.compound.connecter_negation,
        f.compound.connecter_conjunction_sequential,
        f.compound.connecter_conjunction_parallel,
        f.statement.brackets.0,
        f.statement.brackets.1,
        f.sentence.punctuation_judgement,
        f.sentence.punctuation_goal,
        f.sentence.punctuation_question,
        f.sentence.punctuation_quest,
        f.sentence.stamp_brackets.0,
        f.sentence.stamp_brackets.1,
        f.sentence.stamp_past,
        f.sentence.stamp_present,
        f.sentence.stamp_future,
        f.sentence.stamp_fixed,
        f.sentence.truth_brackets.0,
        f.sentence.truth_brackets.1,
        f.sentence.truth_separator,
        f.task.budget_brackets.0,
        f.task.budget_brackets.1,
        f.task.budget_separator,
    ];
    v.extend(f.copulas());
    v.retain(|s| !s.is_empty());
    v
}

pub fn e_atom_prefixes(fi: usize) -> Vec<&'static str> {
    let f = e(fi);
    vec![
        f.atom.prefix_placeholder,
        f.atom.prefix_variable_independent,
        f.atom.prefix_variable_dependent,
        f.atom.prefix_variable_query,
        f.atom.prefix_interval,
        f.atom.prefix_operator,
    ]
}
