//! Well-formedness predicate for enum values (C12) and "can be formatted everywhere".
use crate::engine::guard;
use crate::fmts;
use narsese::api::{GetBudget, GetTruth};
use narsese::conversion::string::typst_formatter::FormatterTypst;
use narsese::enum_narsese::{Budget, Narsese, Term, Truth};

fn in01(x: f64) -> bool {
    x >= 0.0 && x <= 1.0
}

pub fn term_wf(t: &Term, strict_nonempty: bool) -> Result<(), String> {
    use Term as T;
    match t {
        T::Word(n) | T::VariableIndependent(n) | T::VariableDependent(n) | T::VariableQuery(n) | T::Operator(n) => {
            if n.is_empty() {
                return Err(format!("atom with empty name: {t:?}"));
            }
            Ok(())
        }
        T::Placeholder | T::Interval(_) => Ok(()),
        T::ImageExtension(i, v) | T::ImageIntension(i, v) => {
            if *i > v.len() {
                return Err(format!("image placeholder index {i} > {} components", v.len()));
            }
            for k in v {
                term_wf(k, strict_nonempty)?;
            }
            Ok(())
        }
        _ => {
            let comps = t.get_components();
            if strict_nonempty && comps.is_empty() {
                return Err(format!("compound/set without components: {t:?}"));
            }
            for k in comps {
                term_wf(k, strict_nonempty)?;
            }
            Ok(())
        }
    }
}

pub fn truth_wf(t: &Truth) -> Result<(), String> {
    let ok = match t {
        Truth::Empty => true,
        Truth::Single(f) => in01(*f),
        Truth::Double(f, c) => in01(*f) && in01(*c),
    };
    if ok { Ok(()) } else { Err(format!("truth out of [0,1]: {t:?}")) }
}

pub fn budget_wf(b: &Budget) -> Result<(), String> {
    let ok = match b {
        Budget::Empty => true,
        Budget::Single(p) => in01(*p),
        Budget::Double(p, d) => in01(*p) && in01(*d),
        Budget::Triple(p, d, q) => in01(*p) && in01(*d) && in01(*q),
    };
    if ok { Ok(()) } else { Err(format!("budget out of [0,1]: {b:?}")) }
}

/// `strict_nonempty`: values returned by the enum parser must not contain empty compounds/sets
pub fn narsese_wf(v: &Narsese, strict_nonempty: bool) -> Result<(), String> {
    use narsese::api::GetTerm;
    term_wf(v.get_term(), strict_nonempty)?;
    match v {
        Narsese::Term(_) => Ok(()),
        Narsese::Sentence(s) => {
            if let Some(t) = s.get_truth() {
                truth_wf(t)?;
            }
            Ok(())
        }
        Narsese::Task(t) => {
            if let Some(tr) = t.get_truth() {
                truth_wf(tr)?;
            }
            budget_wf(t.get_budget())
        }
    }
}

/// all three formatters and the Typst renderer return without panicking
pub fn formats_everywhere(v: &Narsese) -> Result<(), String> {
    for fi in 0..3 {
        guard(|| fmts::e(fi).format_narsese(v)).map_err(|p| format!("format_narsese[{}] panicked: {p}", fmts::FMT_NAMES[fi]))?;
    }
    guard(|| match v {
        Narsese::Term(t) => FormatterTypst.format(t),
        Narsese::Sentence(s) => FormatterTypst.format(s),
        Narsese::Task(t) => FormatterTypst.format(t),
    })
    .map_err(|p| format!("Typst rendering panicked: {p}"))?;
    Ok(())
}
