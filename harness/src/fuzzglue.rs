//! Glue between libFuzzer byte inputs and the property oracles (C04, C05, C12).
//! byte 0: format; bytes 1-2: split fractions; rest: UTF-8 (lossy), clipped to the bounds.
use crate::engine::{Check, Failure, Shared, Tier};
use crate::props::{c04, c05, c12};
use crate::strgen;
use std::path::PathBuf;
use std::sync::OnceLock;

pub struct Decoded {
    pub fi: usize,
    pub s: String,
    pub splits: Vec<u16>,
    pub clipped: bool,
}

pub fn decode(data: &[u8]) -> Option<Decoded> {
    if data.len() < 3 {
        return None;
    }
    let fi = (data[0] % 3) as usize;
    let splits = vec![(data[1] as u16) << 8, (data[2] as u16) << 8 | 0x80];
    let raw = String::from_utf8_lossy(&data[3..]).to_string();
    let s = strgen::clip(fi, &raw);
    let clipped = s != raw;
    Some(Decoded { fi, s, splits, clipped })
}

fn shared() -> &'static Shared {
    static SH: OnceLock<Shared> = OnceLock::new();
    SH.get_or_init(|| Shared::new("FUZZ", Tier::Thorough, 0, PathBuf::from(std::env::var("VERIF_ROOT").unwrap_or_else(|_| "/verif".into()))))
}

/// which property's oracle runs inside the target (env VERIF_FUZZ_PROP; default: all that apply)
fn wanted(id: &str) -> bool {
    match std::env::var("VERIF_FUZZ_PROP") {
        Ok(p) => p == id,
        Err(_) => true,
    }
}

pub fn oracle(target: &str, d: &Decoded) -> Vec<(&'static str, &'static str, serde_json::Value, Check)> {
    let sh = shared();
    let mut out = vec![];
    match target {
        "enum_total" => {
            if wanted("C04") {
                let c = c04::Case { fi: d.fi, class: "fuzz".into(), s: d.s.clone(), splits: d.splits.clone() };
                out.push(("C04", "strings", serde_json::to_value(&c).unwrap(), c04::check(sh, &c)));
            }
            if wanted("C12") {
                let c = c05::SCase { fi: d.fi, class: "fuzz".into(), s: d.s.clone() };
                out.push(("C12", "strings", serde_json::to_value(&c).unwrap(), c12::check_string(sh, &c)));
            }
        }
        _ => {
            if wanted("C05") {
                let c = c05::SCase { fi: d.fi, class: "fuzz".into(), s: d.s.clone() };
                out.push(("C05", "strings", serde_json::to_value(&c).unwrap(), c05::check_string(sh, &c)));
            }
            if wanted("C12") {
                // parse lexically, fold, and require a well-formed value
                let c = c05::SCase { fi: d.fi, class: "fuzz".into(), s: d.s.clone() };
                out.push(("C12", "lexical-strings", serde_json::to_value(&c).unwrap(), c12::check_lexical_string(sh, &c)));
            }
        }
    }
    out
}

/// entry point of the fuzz targets: a failing oracle panics (libFuzzer turns it into a crash
/// artifact; library panics abort on their own under libfuzzer-sys' hook)
pub fn run(target: &str, data: &[u8]) {
    crate::engine::set_fuzz_mode();
    let Some(d) = decode(data) else { return };
    for (id, _stream, _case, r) in oracle(target, &d) {
        if let Err(Failure { sig, detail }) = r {
            panic!("ORACLE property={id} signature={sig}\n{detail}");
        }
    }
}
